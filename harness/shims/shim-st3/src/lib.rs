//! Shim for `st3::fifo::{Worker, Stealer}` with st3's documented semantics:
//! capacity rounded up to a power of two, `push -> Err(item)` when full, FIFO `pop`,
//! `steal(dest, count_fn)` moving the oldest `min(count_fn(n), dest spare, n)` items,
//! `Empty` when there is nothing (or count 0), `Busy` never (one thread runs at a time).
//! `count_fn` is called with no shim lock held (the queue code calls back into the victim
//! ring from inside it).
pub mod fifo {
    use std::cell::RefCell;
    use std::collections::VecDeque;
    use std::sync::atomic::{AtomicI64, Ordering};
    use std::sync::{Arc, Mutex};

    // per-case accounting of items held in rings (see shim-deque for the scheme)
    thread_local! {
        static GROUP: RefCell<Option<Arc<AtomicI64>>> = const { RefCell::new(None) };
    }
    pub fn set_group(g: Option<Arc<AtomicI64>>) {
        GROUP.with(|c| *c.borrow_mut() = g);
    }

    // st3's contract: `Worker` operations (push, pop, being the destination of a steal) may
    // not overlap with each other on one ring; only `Stealer::steal` may run next to one of
    // them. Each owner operation is two steps here (enter, then the operation proper), so a
    // second logical thread can be scheduled in between; an overlap is counted per case.
    thread_local! {
        static OVERLAPS: RefCell<Option<Arc<AtomicI64>>> = const { RefCell::new(None) };
    }
    pub fn set_overlap_counter(g: Option<Arc<AtomicI64>>) {
        OVERLAPS.with(|c| *c.borrow_mut() = g);
        OVERLAP_PAIR.with(|p| *p.borrow_mut() = None);
    }
    thread_local! {
        static OVERLAP_PAIR: RefCell<Option<(&'static str, &'static str)>> = const { RefCell::new(None) };
    }
    /// the pair of owner operations whose overlap this logical thread detected first
    pub fn take_overlap_pair() -> Option<(&'static str, &'static str)> {
        OVERLAP_PAIR.with(|p| p.borrow_mut().take())
    }

    #[derive(Debug, Clone, Copy, PartialEq, Eq)]
    pub enum StealError {
        Empty,
        Busy,
    }
    impl std::fmt::Display for StealError {
        fn fmt(&self, f: &mut std::fmt::Formatter<'_>) -> std::fmt::Result {
            write!(f, "{self:?}")
        }
    }
    impl std::error::Error for StealError {}

    #[derive(Debug)]
    struct Ring<T> {
        q: Mutex<VecDeque<T>>,
        cap: usize,
        group: Option<Arc<AtomicI64>>,
        owner_busy: std::sync::atomic::AtomicBool,
        readers: AtomicI64,
        owner_op: Mutex<&'static str>,
        overlaps: Option<Arc<AtomicI64>>,
    }



    impl<T> Ring<T> {
        fn flag(&self, first: &'static str, second: &'static str) {
            if let Some(o) = &self.overlaps {
                if o.fetch_add(1, Ordering::SeqCst) == 0 {
                    OVERLAP_PAIR.with(|p| *p.borrow_mut() = Some((first, second)));
                }
            }
        }
        /// a mutating owner operation (push, pop, destination of a steal) begins
        fn owner_enter(&self, kind: &'static str) {
            shim_sched::step("ring.owner.enter");
            if self.owner_busy.swap(true, Ordering::SeqCst) {
                self.flag(*self.owner_op.lock().unwrap(), kind);
            } else {
                *self.owner_op.lock().unwrap() = kind;
                if self.readers.load(Ordering::SeqCst) > 0 {
                    self.flag("spare_capacity", kind);
                }
            }
        }
        /// an owner-side read (spare_capacity) begins: two of them next to each other are
        /// harmless, one next to a mutating owner operation is not
        fn reader_enter(&self) {
            shim_sched::step("ring.owner.read");
            self.readers.fetch_add(1, Ordering::SeqCst);
            if self.owner_busy.load(Ordering::SeqCst) {
                self.flag(*self.owner_op.lock().unwrap(), "spare_capacity");
            }
        }
        fn reader_exit(&self) {
            self.readers.fetch_sub(1, Ordering::SeqCst);
        }
        fn owner_exit(&self) {
            self.owner_busy.store(false, Ordering::SeqCst);
        }
    }

    #[derive(Debug)]
    pub struct Worker<T> {
        r: Arc<Ring<T>>,
    }
    #[derive(Debug)]
    pub struct Stealer<T> {
        r: Arc<Ring<T>>,
    }
    impl<T> Clone for Stealer<T> {
        fn clone(&self) -> Self {
            Stealer { r: self.r.clone() }
        }
    }

    impl<T> Worker<T> {
        pub fn new(min_capacity: usize) -> Self {
            let cap = min_capacity.max(1).next_power_of_two();
            Worker {
                r: Arc::new(Ring {
                    q: Mutex::new(VecDeque::new()),
                    cap,
                    group: GROUP.with(|g| g.borrow().clone()),
                    owner_busy: std::sync::atomic::AtomicBool::new(false),
                    readers: AtomicI64::new(0),
                    owner_op: Mutex::new(""),
                    overlaps: OVERLAPS.with(|g| g.borrow().clone()),
                }),
            }
        }
        pub fn stealer(&self) -> Stealer<T> {
            Stealer { r: self.r.clone() }
        }
        pub fn capacity(&self) -> usize {
            self.r.cap
        }
        /// Owner-side in st3: it subtracts two relaxed loads (`capacity - (tail - head)`), which is
        /// only meaningful on the owner's thread; next to a push of the owner it underflows.
        pub fn spare_capacity(&self) -> usize {
            self.r.reader_enter();
            shim_sched::step("ring.spare_capacity");
            let n = self.r.cap - self.r.q.lock().unwrap().len();
            self.r.reader_exit();
            n
        }
        pub fn is_empty(&self) -> bool {
            shim_sched::step("ring.is_empty");
            self.r.q.lock().unwrap().is_empty()
        }
        pub fn push(&self, item: T) -> Result<(), T> {
            self.r.owner_enter("push");
            shim_sched::step("ring.push");
            let mut q = self.r.q.lock().unwrap();
            if q.len() >= self.r.cap {
                shim_sched::local_counters(|c| c.ring_push_full += 1);
                drop(q);
                self.r.owner_exit();
                return Err(item);
            }
            q.push_back(item);
            if let Some(g) = &self.r.group {
                g.fetch_add(1, Ordering::SeqCst);
            }
            drop(q);
            self.r.owner_exit();
            Ok(())
        }
        pub fn pop(&self) -> Option<T> {
            self.r.owner_enter("pop");
            shim_sched::step("ring.pop");
            let x = self.r.q.lock().unwrap().pop_front();
            self.r.owner_exit();
            if x.is_some() {
                if let Some(g) = &self.r.group {
                    g.fetch_sub(1, Ordering::SeqCst);
                }
            }
            x
        }
        /// harness-only: number of items, no scheduler step
        pub fn raw_len(&self) -> usize {
            self.r.q.lock().unwrap().len()
        }
    }

    impl<T> Stealer<T> {
        pub fn steal<C: FnMut(usize) -> usize>(&self, dest: &Worker<T>, mut count_fn: C) -> Result<usize, StealError> {
            shim_sched::step("ring.steal.read");
            let n = self.r.q.lock().unwrap().len();
            if n == 0 {
                return Err(StealError::Empty);
            }
            let want = count_fn(n);
            // the destination ring is used as its owner would use it
            dest.r.owner_enter("steal-into");
            shim_sched::step("ring.steal.move");
            if Arc::ptr_eq(&self.r, &dest.r) {
                // stealing from oneself: st3 would see its own free capacity; nothing to move
                dest.r.owner_exit();
                return Err(StealError::Empty);
            }
            let mut src = self.r.q.lock().unwrap();
            let mut dst = dest.r.q.lock().unwrap();
            let spare = dest.r.cap - dst.len();
            let k = want.min(spare).min(src.len());
            if k == 0 {
                drop(dst);
                drop(src);
                dest.r.owner_exit();
                return Err(StealError::Empty);
            }
            for _ in 0..k {
                let x = src.pop_front().unwrap();
                dst.push_back(x);
            }
            drop(dst);
            drop(src);
            dest.r.owner_exit();
            shim_sched::local_counters(|c| c.steals_ok += 1);
            Ok(k)
        }
    }
}

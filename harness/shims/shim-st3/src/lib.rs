//! Shim for `st3::fifo::{Worker, Stealer}` with st3's documented semantics:
//! capacity rounded up to a power of two, `push -> Err(item)` when full, FIFO `pop`,
//! `steal(dest, count_fn)` moving the oldest `min(count_fn(n), dest spare, n)` items,
//! `Empty` when there is nothing (or count 0), `Busy` never (one thread runs at a time).
//! `count_fn` is called with no shim lock held (the queue code calls back into the victim
//! ring from inside it).
pub mod fifo {
    use std::cell::RefCell;
    use std::collections::VecDeque;
    use std::sync::atomic::{AtomicI64, Ordering};
    use std::sync::{Arc, Mutex};

    // per-case accounting of items held in rings (see shim-deque for the scheme)
    thread_local! {
        static GROUP: RefCell<Option<Arc<AtomicI64>>> = const { RefCell::new(None) };
    }
    pub fn set_group(g: Option<Arc<AtomicI64>>) {
        GROUP.with(|c| *c.borrow_mut() = g);
    }

    // st3's contract: `Worker` operations (push, pop, being the destination of a steal) may
    // not overlap with each other on one ring; only `Stealer::steal` may run next to one of
    // them. Each owner operation is two steps here (enter, then the operation proper), so a
    // second logical thread can be scheduled in between; an overlap is counted per case.
    thread_local! {
        static OVERLAPS: RefCell<Option<Arc<AtomicI64>>> = const { RefCell::new(None) };
    }
    pub fn set_overlap_counter(g: Option<Arc<AtomicI64>>) {
        OVERLAPS.with(|c| *c.borrow_mut() = g);
    }

    #[derive(Debug, Clone, Copy, PartialEq, Eq)]
    pub enum StealError {
        Empty,
        Busy,
    }
    impl std::fmt::Display for StealError {
        fn fmt(&self, f: &mut std::fmt::Formatter<'_>) -> std::fmt::Result {
            write!(f, "{self:?}")
        }
    }
    impl std::error::Error for StealError {}

    #[derive(Debug)]
    struct Ring<T> {
        q: Mutex<VecDeque<T>>,
        cap: usize,
        group: Option<Arc<AtomicI64>>,
        owner_busy: std::sync::atomic::AtomicBool,
        overlaps: Option<Arc<AtomicI64>>,
    }

    impl<T> Ring<T> {
        fn owner_enter(&self) {
            shim_sched::step("ring.owner.enter");
            if self.owner_busy.swap(true, Ordering::SeqCst) {
                if let Some(o) = &self.overlaps {
                    o.fetch_add(1, Ordering::SeqCst);
                }
            }
        }
        fn owner_exit(&self) {
            self.owner_busy.store(false, Ordering::SeqCst);
        }
    }

    #[derive(Debug)]
    pub struct Worker<T> {
        r: Arc<Ring<T>>,
    }
    #[derive(Debug)]
    pub struct Stealer<T> {
        r: Arc<Ring<T>>,
    }
    impl<T> Clone for Stealer<T> {
        fn clone(&self) -> Self {
            Stealer { r: self.r.clone() }
        }
    }

    impl<T> Worker<T> {
        pub fn new(min_capacity: usize) -> Self {
            let cap = min_capacity.max(1).next_power_of_two();
            Worker {
                r: Arc::new(Ring {
                    q: Mutex::new(VecDeque::new()),
                    cap,
                    group: GROUP.with(|g| g.borrow().clone()),
                    owner_busy: std::sync::atomic::AtomicBool::new(false),
                    overlaps: OVERLAPS.with(|g| g.borrow().clone()),
                }),
            }
        }
        pub fn stealer(&self) -> Stealer<T> {
            Stealer { r: self.r.clone() }
        }
        pub fn capacity(&self) -> usize {
            self.r.cap
        }
        pub fn spare_capacity(&self) -> usize {
            shim_sched::step("ring.spare_capacity");
            self.r.cap - self.r.q.lock().unwrap().len()
        }
        pub fn is_empty(&self) -> bool {
            shim_sched::step("ring.is_empty");
            self.r.q.lock().unwrap().is_empty()
        }
        pub fn push(&self, item: T) -> Result<(), T> {
            self.r.owner_enter();
            shim_sched::step("ring.push");
            let mut q = self.r.q.lock().unwrap();
            if q.len() >= self.r.cap {
                shim_sched::local_counters(|c| c.ring_push_full += 1);
                drop(q);
                self.r.owner_exit();
                return Err(item);
            }
            q.push_back(item);
            if let Some(g) = &self.r.group {
                g.fetch_add(1, Ordering::SeqCst);
            }
            drop(q);
            self.r.owner_exit();
            Ok(())
        }
        pub fn pop(&self) -> Option<T> {
            self.r.owner_enter();
            shim_sched::step("ring.pop");
            let x = self.r.q.lock().unwrap().pop_front();
            self.r.owner_exit();
            if x.is_some() {
                if let Some(g) = &self.r.group {
                    g.fetch_sub(1, Ordering::SeqCst);
                }
            }
            x
        }
        /// harness-only: number of items, no scheduler step
        pub fn raw_len(&self) -> usize {
            self.r.q.lock().unwrap().len()
        }
    }

    impl<T> Stealer<T> {
        pub fn steal<C: FnMut(usize) -> usize>(&self, dest: &Worker<T>, mut count_fn: C) -> Result<usize, StealError> {
            shim_sched::step("ring.steal.read");
            let n = self.r.q.lock().unwrap().len();
            if n == 0 {
                return Err(StealError::Empty);
            }
            let want = count_fn(n);
            // the destination ring is used as its owner would use it
            dest.r.owner_enter();
            shim_sched::step("ring.steal.move");
            if Arc::ptr_eq(&self.r, &dest.r) {
                // stealing from oneself: st3 would see its own free capacity; nothing to move
                dest.r.owner_exit();
                return Err(StealError::Empty);
            }
            let mut src = self.r.q.lock().unwrap();
            let mut dst = dest.r.q.lock().unwrap();
            let spare = dest.r.cap - dst.len();
            let k = want.min(spare).min(src.len());
            if k == 0 {
                drop(dst);
                drop(src);
                dest.r.owner_exit();
                return Err(StealError::Empty);
            }
            for _ in 0..k {
                let x = src.pop_front().unwrap();
                dst.push_back(x);
            }
            drop(dst);
            drop(src);
            dest.r.owner_exit();
            shim_sched::local_counters(|c| c.steals_ok += 1);
            Ok(k)
        }
    }
}

//! Shim for `crossbeam_deque::{Injector, Steal}`: a mutex-backed FIFO whose every
//! operation is one scheduler step; `steal` may report a generator-controlled spurious
//! `Retry` (bounded). Also counts the items held by all injectors of the calling case.
use std::collections::VecDeque;
use std::sync::atomic::{AtomicI64, Ordering};
use std::sync::Mutex;

use std::cell::RefCell;
use std::sync::Arc;

// Item accounting per *case*: the harness installs one counter (an `Arc<AtomicI64>`) in
// the main thread and every logical thread of a case; each Injector captures the counter
// of the thread that creates it and keeps it up to date.
thread_local! {
    static GROUP: RefCell<Option<Arc<AtomicI64>>> = const { RefCell::new(None) };
}
pub fn set_group(g: Option<Arc<AtomicI64>>) {
    GROUP.with(|c| *c.borrow_mut() = g);
}

#[derive(Debug, PartialEq, Eq)]
pub enum Steal<T> {
    Empty,
    Success(T),
    Retry,
}

#[derive(Debug)]
pub struct Injector<T> {
    q: Mutex<VecDeque<T>>,
    group: Option<Arc<AtomicI64>>,
}

impl<T> Default for Injector<T> {
    fn default() -> Self {
        Self::new()
    }
}

impl<T> Injector<T> {
    pub fn new() -> Self {
        Injector { q: Mutex::new(VecDeque::new()), group: GROUP.with(|g| g.borrow().clone()) }
    }
    pub fn push(&self, item: T) {
        shim_sched::step("injector.push");
        shim_sched::local_counters(|c| c.injector_pushes += 1);
        self.q.lock().unwrap().push_back(item);
        if let Some(g) = &self.group {
            g.fetch_add(1, Ordering::SeqCst);
        }
    }
    pub fn steal(&self) -> Steal<T> {
        shim_sched::step("injector.steal");
        if shim_sched::retry_draw() {
            shim_sched::local_counters(|c| c.injector_retries += 1);
            return Steal::Retry;
        }
        match self.q.lock().unwrap().pop_front() {
            Some(x) => {
                if let Some(g) = &self.group {
                    g.fetch_sub(1, Ordering::SeqCst);
                }
                Steal::Success(x)
            }
            None => Steal::Empty,
        }
    }
    pub fn is_empty(&self) -> bool {
        shim_sched::step("injector.is_empty");
        self.q.lock().unwrap().is_empty()
    }
    pub fn len(&self) -> usize {
        shim_sched::step("injector.len");
        self.q.lock().unwrap().len()
    }
}

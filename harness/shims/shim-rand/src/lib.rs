//! Shim for the two `rand` items the queues use: `rand::rng().random_range(0..n)`,
//! answered from the generated case.
pub struct ShimRng;
pub fn rng() -> ShimRng {
    ShimRng
}
pub trait RngExt {
    fn random_range(&mut self, r: std::ops::Range<usize>) -> usize;
}
impl RngExt for ShimRng {
    fn random_range(&mut self, r: std::ops::Range<usize>) -> usize {
        let n = r.end.saturating_sub(r.start);
        r.start + shim_sched::rng_draw(n)
    }
}

//! Deterministic baton-passing scheduler + instrumented atomics for the queue shims.
//!
//! Every shim operation (atomic load/store/rmw, injector push/steal, ring push/pop/steal,
//! rng draw) calls `step(kind)` first. `step`:
//!   * charges the calling logical thread's per-call step budget (C04's bound) and
//!     panics with `BudgetExhausted` when it is used up,
//!   * if a scheduler is installed for this OS thread, consults the next schedule byte and
//!     possibly hands the baton to another logical thread (exactly one runs at a time).
//! Without a scheduler (single-threaded engines) only the budget is charged.

use std::cell::{Cell, RefCell};
use std::collections::HashMap;
use std::sync::{Arc, Condvar, Mutex};

#[derive(Debug, Clone, Copy, PartialEq, Eq)]
pub struct BudgetExhausted;

#[derive(Debug, Default, Clone)]
pub struct Counters {
    pub steps: u64,
    pub switches: u64,
    /// a plain `store` to an atomic by a thread that loaded it earlier while another thread
    /// has stored in between (the lost-update window of load-then-store counters)
    pub stale_stores: u64,
    pub steals_ok: u64,
    pub injector_pushes: u64,
    pub injector_retries: u64,
    pub ring_push_full: u64,
    /// lock attempts that found the shim mutex held by another logical thread
    pub lock_contended: u64,
}

pub struct Sched {
    st: Mutex<SchedState>,
    cv: Condvar,
}

struct SchedState {
    current: usize,
    runnable: Vec<bool>,
    schedule: Vec<u8>,
    pos: usize,
    counters: Counters,
    /// executed choices (for exhaustive exploration): (chosen index among runnable, number runnable)
    trace: Vec<(u8, u8)>,
    /// forced choices prefix for DFS mode (index among runnable); overrides `schedule`
    forced: Option<Vec<u8>>,
    aborted: bool,
}

thread_local! {
    static CTX: RefCell<Option<(Arc<Sched>, usize)>> = const { RefCell::new(None) };
    static BUDGET: Cell<u64> = const { Cell::new(u64::MAX) };
    static USED: Cell<u64> = const { Cell::new(0) };
    static LOCAL_COUNTERS: RefCell<Counters> = RefCell::new(Counters::default());
    static SEEN: RefCell<HashMap<usize, u64>> = RefCell::new(HashMap::new());
    static RNG_SCRIPT: RefCell<(Vec<u16>, usize)> = const { RefCell::new((Vec::new(), 0)) };
    static RETRY_SCRIPT: RefCell<(Vec<bool>, usize)> = const { RefCell::new((Vec::new(), 0)) };
}

/// per-call step budget of the calling logical thread
pub fn set_budget(b: u64) {
    BUDGET.with(|c| c.set(b));
    USED.with(|c| c.set(0));
}
pub fn used_steps() -> u64 {
    USED.with(|c| c.get())
}
pub fn clear_budget() {
    BUDGET.with(|c| c.set(u64::MAX));
}

pub fn set_rng_script(v: Vec<u16>) {
    RNG_SCRIPT.with(|r| *r.borrow_mut() = (v, 0));
}
/// answers `random_range(0..n)` from the script (monotone mapping), 0 when exhausted
pub fn rng_draw(n: usize) -> usize {
    step("rng");
    RNG_SCRIPT.with(|r| {
        let mut r = r.borrow_mut();
        let pos = r.1;
        let x = r.0.get(pos).copied().unwrap_or(0);
        r.1 += 1;
        if n == 0 { 0 } else { (x as usize * n) >> 16 }
    })
}
pub fn set_retry_script(v: Vec<bool>) {
    RETRY_SCRIPT.with(|r| *r.borrow_mut() = (v, 0));
}
/// should the next injector steal report a spurious `Retry`? (bounded by the script)
pub fn retry_draw() -> bool {
    RETRY_SCRIPT.with(|r| {
        let mut r = r.borrow_mut();
        let pos = r.1;
        r.1 += 1;
        r.0.get(pos).copied().unwrap_or(false)
    })
}

pub fn local_counters<R>(f: impl FnOnce(&mut Counters) -> R) -> R {
    LOCAL_COUNTERS.with(|c| f(&mut c.borrow_mut()))
}
pub fn take_local_counters() -> Counters {
    LOCAL_COUNTERS.with(|c| std::mem::take(&mut *c.borrow_mut()))
}
pub fn reset_thread_state() {
    let _ = take_local_counters();
    SEEN.with(|s| s.borrow_mut().clear());
    clear_budget();
    set_rng_script(vec![]);
    set_retry_script(vec![]);
}

/// The calling logical thread is blocked on something another logical thread has to release.
/// Without a scheduler (single-threaded engines) nobody else can release it: that is a
/// self-deadlock of the code under test and is reported like an exhausted budget.
pub fn blocked() {
    let ctx = CTX.with(|c| c.borrow().clone());
    match ctx {
        Some((s, me)) => s.force_switch(me),
        None => {
            clear_budget();
            std::panic::panic_any(BudgetExhausted);
        }
    }
}

/// one yield point
pub fn step(_kind: &'static str) {
    let used = USED.with(|c| {
        c.set(c.get() + 1);
        c.get()
    });
    local_counters(|c| c.steps += 1);
    if used > BUDGET.with(|c| c.get()) {
        // disarm so that unwinding code (Drop impls touching shims) cannot re-panic
        clear_budget();
        std::panic::panic_any(BudgetExhausted);
    }
    let ctx = CTX.with(|c| c.borrow().clone());
    if let Some((s, me)) = ctx {
        s.yield_point(me);
    }
}

impl Sched {
    pub fn new(nthreads: usize, schedule: Vec<u8>, forced: Option<Vec<u8>>) -> Arc<Sched> {
        Arc::new(Sched {
            st: Mutex::new(SchedState {
                current: 0,
                runnable: vec![true; nthreads],
                schedule,
                pos: 0,
                counters: Counters::default(),
                trace: vec![],
                forced,
                aborted: false,
            }),
            cv: Condvar::new(),
        })
    }

    fn choose(st: &mut SchedState, me: Option<usize>) -> Option<usize> {
        let run: Vec<usize> = (0..st.runnable.len()).filter(|i| st.runnable[*i]).collect();
        if run.is_empty() {
            return None;
        }
        let n = run.len();
        let k = if let Some(f) = &st.forced {
            // DFS mode: forced prefix, then always choice 0
            let k = f.get(st.pos).copied().unwrap_or(0) as usize;
            k.min(n - 1)
        } else if let Some(b) = st.schedule.get(st.pos) {
            (*b as usize * n) >> 8
        } else {
            // schedule exhausted: keep running the current thread if it can, else lowest
            match me {
                Some(m) if st.runnable[m] => run.iter().position(|x| *x == m).unwrap_or(0),
                _ => 0,
            }
        };
        if n > 1 {
            st.trace.push((k as u8, n as u8));
        }
        if n > 1 {
            st.pos += 1;
        }
        Some(run[k])
    }

    fn yield_point(&self, me: usize) {
        let mut st = self.st.lock().unwrap();
        if st.aborted {
            return;
        }
        debug_assert_eq!(st.current, me);
        let next = Self::choose(&mut st, Some(me)).unwrap_or(me);
        if next != me {
            st.counters.switches += 1;
            st.current = next;
            self.cv.notify_all();
            while st.current != me && !st.aborted {
                st = self.cv.wait(st).unwrap();
            }
        }
    }

    /// A logical thread cannot proceed (it waits for a lock another logical thread holds):
    /// hand the baton to the next runnable thread other than `me`, whatever the schedule says.
    fn force_switch(&self, me: usize) {
        let mut st = self.st.lock().unwrap();
        if st.aborted {
            return;
        }
        let n = st.runnable.len();
        let next = (1..n).map(|d| (me + d) % n).find(|i| st.runnable[*i]);
        if let Some(next) = next {
            st.counters.switches += 1;
            st.current = next;
            self.cv.notify_all();
            while st.current != me && !st.aborted {
                st = self.cv.wait(st).unwrap();
            }
        }
    }

    /// called by a logical thread before its first op
    pub fn enter(self: &Arc<Self>, me: usize) {
        CTX.with(|c| *c.borrow_mut() = Some((self.clone(), me)));
        let mut st = self.st.lock().unwrap();
        while st.current != me && !st.aborted {
            st = self.cv.wait(st).unwrap();
        }
    }

    /// called by a logical thread after its last op (or when it dies)
    pub fn leave(self: &Arc<Self>, me: usize) {
        CTX.with(|c| *c.borrow_mut() = None);
        let mut st = self.st.lock().unwrap();
        st.runnable[me] = false;
        if st.current == me {
            if let Some(n) = Self::choose(&mut st, None) {
                st.current = n;
            }
        }
        self.cv.notify_all();
    }

    pub fn abort(&self) {
        let mut st = self.st.lock().unwrap();
        st.aborted = true;
        self.cv.notify_all();
    }

    pub fn switches(&self) -> u64 {
        self.st.lock().unwrap().counters.switches
    }
    pub fn trace(&self) -> Vec<(u8, u8)> {
        self.st.lock().unwrap().trace.clone()
    }
}

pub mod atomic {
    //! Sequentially consistent instrumented atomics; every access is one `step`.
    pub use std::sync::atomic::Ordering;
    use std::sync::atomic as real;

    macro_rules! int_atomic {
        ($name:ident, $real:ident, $t:ty) => {
            #[derive(Debug, Default)]
            pub struct $name {
                v: real::$real,
                version: real::AtomicU64,
            }
            impl $name {
                pub const fn new(v: $t) -> Self {
                    Self { v: real::$real::new(v), version: real::AtomicU64::new(0) }
                }
                fn key(&self) -> usize {
                    std::ptr::from_ref(self) as usize
                }
                pub fn load(&self, _: Ordering) -> $t {
                    super::step("atomic.load");
                    let ver = self.version.load(Ordering::SeqCst);
                    super::SEEN.with(|s| {
                        s.borrow_mut().insert(self.key(), ver);
                    });
                    self.v.load(Ordering::SeqCst)
                }
                pub fn store(&self, val: $t, _: Ordering) {
                    super::step("atomic.store");
                    let ver = self.version.load(Ordering::SeqCst);
                    let seen = super::SEEN.with(|s| s.borrow().get(&self.key()).copied());
                    if let Some(seen) = seen {
                        if seen != ver {
                            super::local_counters(|c| c.stale_stores += 1);
                        }
                    }
                    self.v.store(val, Ordering::SeqCst);
                    let nv = self.version.fetch_add(1, Ordering::SeqCst) + 1;
                    super::SEEN.with(|s| {
                        s.borrow_mut().insert(self.key(), nv);
                    });
                }
                pub fn fetch_add(&self, val: $t, _: Ordering) -> $t {
                    super::step("atomic.fetch_add");
                    self.version.fetch_add(1, Ordering::SeqCst);
                    self.v.fetch_add(val, Ordering::SeqCst)
                }
                pub fn fetch_sub(&self, val: $t, _: Ordering) -> $t {
                    super::step("atomic.fetch_sub");
                    self.version.fetch_add(1, Ordering::SeqCst);
                    self.v.fetch_sub(val, Ordering::SeqCst)
                }
                pub fn swap(&self, val: $t, _: Ordering) -> $t {
                    super::step("atomic.swap");
                    self.version.fetch_add(1, Ordering::SeqCst);
                    self.v.swap(val, Ordering::SeqCst)
                }
                pub fn compare_exchange(&self, cur: $t, new: $t, _: Ordering, _: Ordering) -> Result<$t, $t> {
                    super::step("atomic.cas");
                    let r = self.v.compare_exchange(cur, new, Ordering::SeqCst, Ordering::SeqCst);
                    if r.is_ok() {
                        self.version.fetch_add(1, Ordering::SeqCst);
                    }
                    r
                }
                pub fn compare_exchange_weak(&self, cur: $t, new: $t, a: Ordering, b: Ordering) -> Result<$t, $t> {
                    self.compare_exchange(cur, new, a, b)
                }
                pub fn fetch_update<F: FnMut($t) -> Option<$t>>(&self, _: Ordering, _: Ordering, mut f: F) -> Result<$t, $t> {
                    super::step("atomic.fetch_update");
                    let cur = self.v.load(Ordering::SeqCst);
                    match f(cur) {
                        Some(n) => {
                            self.v.store(n, Ordering::SeqCst);
                            self.version.fetch_add(1, Ordering::SeqCst);
                            Ok(cur)
                        }
                        None => Err(cur),
                    }
                }
                pub fn fetch_max(&self, val: $t, _: Ordering) -> $t {
                    super::step("atomic.fetch_max");
                    self.version.fetch_add(1, Ordering::SeqCst);
                    self.v.fetch_max(val, Ordering::SeqCst)
                }
                pub fn fetch_min(&self, val: $t, _: Ordering) -> $t {
                    super::step("atomic.fetch_min");
                    self.version.fetch_add(1, Ordering::SeqCst);
                    self.v.fetch_min(val, Ordering::SeqCst)
                }
                pub fn into_inner(self) -> $t {
                    self.v.into_inner()
                }
                pub fn get_mut(&mut self) -> &mut $t {
                    self.v.get_mut()
                }
            }
        };
    }
    int_atomic!(AtomicUsize, AtomicUsize, usize);
    int_atomic!(AtomicU32, AtomicU32, u32);
    int_atomic!(AtomicU64, AtomicU64, u64);
    int_atomic!(AtomicIsize, AtomicIsize, isize);
    int_atomic!(AtomicI64, AtomicI64, i64);

    #[derive(Debug, Default)]
    pub struct AtomicBool {
        v: real::AtomicBool,
    }
    impl AtomicBool {
        pub const fn new(v: bool) -> Self {
            Self { v: real::AtomicBool::new(v) }
        }
        pub fn load(&self, _: Ordering) -> bool {
            super::step("atomicbool.load");
            self.v.load(Ordering::SeqCst)
        }
        pub fn store(&self, val: bool, _: Ordering) {
            super::step("atomicbool.store");
            self.v.store(val, Ordering::SeqCst);
        }
        pub fn swap(&self, val: bool, _: Ordering) -> bool {
            super::step("atomicbool.swap");
            self.v.swap(val, Ordering::SeqCst)
        }
        pub fn compare_exchange(&self, cur: bool, new: bool, _: Ordering, _: Ordering) -> Result<bool, bool> {
            super::step("atomicbool.cas");
            self.v.compare_exchange(cur, new, Ordering::SeqCst, Ordering::SeqCst)
        }
        pub fn compare_exchange_weak(&self, cur: bool, new: bool, a: Ordering, b: Ordering) -> Result<bool, bool> {
            self.compare_exchange(cur, new, a, b)
        }
    }
}

pub mod sync {
    //! Yield-aware mutex for sources compiled under the shim scheduler: every lock attempt
    //! and every unlock is one `step`; a contended lock retries (each retry is a yield
    //! point, so the holder gets scheduled). The API mirrors the part of
    //! `std::sync::Mutex` the queue sources use.
    use std::cell::UnsafeCell;
    use std::ops::{Deref, DerefMut};
    use std::sync::atomic::{AtomicBool, Ordering};

    #[derive(Debug)]
    pub struct PoisonError<G>(G);
    impl<G> PoisonError<G> {
        pub fn into_inner(self) -> G {
            self.0
        }
    }
    pub type LockResult<G> = Result<G, PoisonError<G>>;

    #[derive(Debug, Default)]
    pub struct Mutex<T> {
        locked: AtomicBool,
        v: UnsafeCell<T>,
    }
    unsafe impl<T: Send> Send for Mutex<T> {}
    unsafe impl<T: Send> Sync for Mutex<T> {}

    pub struct MutexGuard<'a, T> {
        m: &'a Mutex<T>,
    }

    impl<T> Mutex<T> {
        pub const fn new(v: T) -> Self {
            Mutex { locked: AtomicBool::new(false), v: UnsafeCell::new(v) }
        }
        pub fn lock(&self) -> LockResult<MutexGuard<'_, T>> {
            loop {
                super::step("mutex.lock");
                if self.locked.compare_exchange(false, true, Ordering::SeqCst, Ordering::SeqCst).is_ok() {
                    return Ok(MutexGuard { m: self });
                }
                super::local_counters(|c| c.lock_contended += 1);
                // let the holder run (a waiting thread does not use up its own step budget
                // faster than one step per hand-over)
                super::blocked();
            }
        }
    }
    impl<T> Deref for MutexGuard<'_, T> {
        type Target = T;
        fn deref(&self) -> &T {
            unsafe { &*self.m.v.get() }
        }
    }
    impl<T> DerefMut for MutexGuard<'_, T> {
        fn deref_mut(&mut self) -> &mut T {
            unsafe { &mut *self.m.v.get() }
        }
    }
    impl<T> Drop for MutexGuard<'_, T> {
        fn drop(&mut self) {
            self.m.locked.store(false, Ordering::SeqCst);
        }
    }
}

//! C23 through the public API: `open_coroutine::maybe_grow(red_zone, stack_size, f)` (→ C ABI
//! `maybe_grow_stack` of the hook library → `maybe_grow_with` of its copy of the core).
//!
//! A generated recursion of `depth` levels with 1/4/8 KiB frames, every level entered through
//! `maybe_grow`, run inside a task or on the main thread (plain-thread path), optionally with a
//! second descent from one level (zig-zag). Oracle: the process survives, every level can use
//! `red_zone - 3 KiB` of stack below its entry (a chain of small frames walks that far), and
//! the value returned by the outermost call equals a pure model.

use std::hint::black_box;

#[derive(serde::Serialize, serde::Deserialize, Clone, Copy, Debug, PartialEq)]
pub struct Grow {
    pub depth: u8,
    /// 0..=2 => 1, 4, 8 KiB per level
    pub frame: u8,
    pub red_kib: u8,
    pub extra_kib: u8,
    /// this level descends a second time after its first descent returned
    pub again_at: Option<u8>,
}

fn mix(below: u64, d: u32) -> u64 {
    below.wrapping_mul(0x100000001b3).wrapping_add(u64::from(d) + 1)
}

pub fn model(g: &Grow) -> u64 {
    let mut v = 1u64;
    for lvl in (0..u32::from(g.depth.max(1))).rev() {
        v = mix(v, lvl);
    }
    v
}

#[inline(never)]
fn eat(bytes: usize) -> u8 {
    let mut b = [0u8; 512];
    let p = black_box(&mut b);
    p[0] = (bytes & 0xff) as u8;
    p[511] = 1;
    if bytes > 640 {
        p[0].wrapping_add(eat(bytes - 640))
    } else {
        p[0]
    }
}

fn rec<const F: usize>(g: &Grow, d: u32, second: bool) -> u64 {
    let red = usize::from(g.red_kib.max(12)) * 1024;
    let seg = red + usize::from(g.extra_kib.max(16)) * 1024;
    let g2 = *g;
    open_coroutine::maybe_grow(red, seg, move || {
        let mut frame = [0u8; F];
        let fr = black_box(&mut frame);
        fr[0] = d as u8;
        fr[F - 1] = 1;
        let _ = black_box(eat(red.saturating_sub(F + 3072)));
        let depth = u32::from(g2.depth.max(1));
        let below = if d + 1 < depth { rec::<F>(&g2, d + 1, second) } else { 1 };
        if !second && g2.again_at.map(u32::from) == Some(d) && d + 1 < depth {
            let again = rec::<F>(&g2, d + 1, true);
            if again != below {
                return u64::MAX; // poisons the result: the model never yields it
            }
        }
        mix(below, d).wrapping_add(u64::from(fr[0]).wrapping_sub(u64::from(d as u8)))
    })
    .unwrap_or(u64::MAX - 1)
}

pub fn run(g: &Grow) -> u64 {
    match g.frame % 3 {
        0 => rec::<1024>(g, 0, false),
        1 => rec::<4096>(g, 0, false),
        _ => rec::<8192>(g, 0, false),
    }
}

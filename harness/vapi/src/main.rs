//! `vapi` — end-to-end engine through the public API of the `open-coroutine` crate, the C ABI
//! of the hook library (`task_crate`, `task_join`, `task_timeout_join`, `task_cancel`) and the
//! libc symbols the hook library interposes (`sleep`, `usleep`, `nanosleep`, `select`, ...).
//!
//! One case = configuration (event loops, worker limit, hook flag) + a history of operations
//! issued by the main thread of a fresh process: create a task, join it (with or without a
//! limit), cancel it, make a timed libc call on the main thread, pause. Task bodies return a
//! value, panic, or make timed libc calls. The child reports a log with timestamps; the parent
//! judges it for one property at a time (`vapi C01|C02|C13|C14|C15`), with the same oracles and
//! signature names as the core-level engines, so the two views of one property share one list
//! of known findings.

mod grow;

use proptest::prelude::*;
use serde::{Deserialize, Serialize};
use std::sync::atomic::{AtomicU32, AtomicU64, Ordering};
use std::sync::{Arc, Mutex};
use std::time::{Duration, Instant};
use vkit::child::{self, ChildSpec, End};
use vkit::{Args, Evidence, Outcome, RunCfg};

// ------------------------------------------------------------------------------------------
// case
// ------------------------------------------------------------------------------------------

#[derive(Serialize, Deserialize, Clone, Debug, PartialEq)]
pub enum Call {
    /// `libc::sleep(secs)`
    Sleep(u8),
    /// `libc::usleep(us)`
    Usleep(u32),
    /// `libc::nanosleep({sec, nsec}, NULL)`; `nsec` outside 0..1e9 or `sec < 0` is invalid
    Nanosleep { sec: i64, nsec: i64 },
    /// `libc::select(0, NULL, NULL, NULL, {sec, usec})`; a negative field is invalid
    Select { sec: i64, usec: i64 },
}

impl Call {
    fn invalid(&self) -> bool {
        match *self {
            Call::Nanosleep { sec, nsec } => sec < 0 || !(0..1_000_000_000).contains(&nsec),
            Call::Select { sec, usec } => sec < 0 || usec < 0,
            _ => false,
        }
    }
    /// requested duration in ns (valid calls)
    fn nominal_ns(&self) -> u64 {
        match *self {
            Call::Sleep(s) => u64::from(s) * 1_000_000_000,
            Call::Usleep(us) => u64::from(us) * 1_000,
            Call::Nanosleep { sec, nsec } => {
                if self.invalid() {
                    0
                } else {
                    sec as u64 * 1_000_000_000 + nsec as u64
                }
            }
            Call::Select { sec, usec } => {
                if self.invalid() {
                    0
                } else {
                    sec as u64 * 1_000_000_000 + usec as u64 * 1_000
                }
            }
        }
    }
    fn name(&self) -> &'static str {
        match self {
            Call::Sleep(_) => "sleep",
            Call::Usleep(_) => "usleep",
            Call::Nanosleep { .. } => "nanosleep",
            Call::Select { .. } => "select",
        }
    }
}

#[derive(Serialize, Deserialize, Clone, Debug, PartialEq)]
pub enum Body {
    Value,
    PanicStatic,
    PanicString,
    Calls(Vec<Call>),
    /// a recursion through `open_coroutine::maybe_grow` (C23)
    Grow(grow::Grow),
}

impl Body {
    fn panics(&self) -> bool {
        matches!(self, Body::PanicStatic | Body::PanicString)
    }
    fn nominal_ns(&self) -> u64 {
        match self {
            Body::Calls(v) => v.iter().map(Call::nominal_ns).sum(),
            _ => 0,
        }
    }
}

#[derive(Serialize, Deserialize, Clone, Debug, PartialEq)]
pub enum Op {
    Task { body: Body, prio: i8 },
    /// `timeout_ms == None`: `join()` (only issued with one event loop), else `timeout_join`
    Join { task: u16, timeout_ms: Option<u16> },
    Cancel { task: u16 },
    Main(Call),
    /// the same recursion on the main thread (plain-thread path of the stack growth)
    MainGrow(grow::Grow),
    Pause(u8),
}

#[derive(Serialize, Deserialize, Clone, Debug, PartialEq)]
pub struct Case {
    pub loops: u8,
    pub hook: bool,
    /// 0 = the default limit (65536 workers per loop)
    pub max_size: u8,
    pub ops: Vec<Op>,
}

// ------------------------------------------------------------------------------------------
// log
// ------------------------------------------------------------------------------------------

#[derive(Serialize, Deserialize, Clone, Debug)]
pub struct CallLog {
    pub call: Call,
    pub at: u64,
    pub elapsed: u64,
    pub ret: i64,
    pub errno: i32,
}

#[derive(Serialize, Deserialize, Clone, Debug)]
pub struct TaskLog {
    pub k: usize,
    pub body: Body,
    pub submitted: u64,
    pub started: u64,
    pub ended: u64,
    pub runs: u32,
    pub calls: Vec<CallLog>,
    /// value returned by a `Grow` body (0 = not that kind of body / never got there)
    #[serde(default)]
    pub grown: String,
}

#[derive(Serialize, Deserialize, Clone, Debug)]
pub struct JoinLog {
    pub task: usize,
    pub timeout_ms: Option<u64>,
    pub last: bool,
    pub called: u64,
    pub returned: u64,
    /// value | none | error
    pub kind: String,
    pub v: Option<u64>,
    pub s: String,
}

#[derive(Serialize, Deserialize, Clone, Debug)]
pub struct CancelLog {
    pub task: usize,
    pub at: u64,
    pub done: u64,
    pub ok: bool,
    pub started_before: u64,
    pub ended_before: u64,
}

#[derive(Serialize, Deserialize, Clone, Debug, Default)]
pub struct Log {
    pub interposed: bool,
    pub tasks: Vec<TaskLog>,
    pub joins: Vec<JoinLog>,
    pub cancels: Vec<CancelLog>,
    pub main_calls: Vec<CallLog>,
    /// (case, value) of every recursion run on the main thread
    #[serde(default)]
    pub main_grows: Vec<(grow::Grow, String)>,
    pub host_calm: bool,
}

fn expected_value(k: usize) -> (u64, String) {
    (k as u64 * 7919 + 13, format!("value-of-task-{k}"))
}
fn panic_text(k: usize) -> String {
    format!("api task {k} panics on purpose")
}

// ------------------------------------------------------------------------------------------
// child
// ------------------------------------------------------------------------------------------

static T0: std::sync::OnceLock<Instant> = std::sync::OnceLock::new();
fn now() -> u64 {
    T0.get_or_init(Instant::now).elapsed().as_nanos() as u64 + 1
}

fn do_call(c: &Call) -> CallLog {
    let at = now();
    let t = Instant::now();
    unsafe { *libc::__errno_location() = 0 };
    let ret: i64 = match *c {
        Call::Sleep(s) => i64::from(unsafe { libc::sleep(u32::from(s)) }),
        Call::Usleep(us) => i64::from(unsafe { libc::usleep(us) }),
        Call::Nanosleep { sec, nsec } => {
            let ts = libc::timespec { tv_sec: sec, tv_nsec: nsec };
            i64::from(unsafe { libc::nanosleep(&ts, std::ptr::null_mut()) })
        }
        Call::Select { sec, usec } => {
            let mut tv = libc::timeval { tv_sec: sec, tv_usec: usec };
            i64::from(unsafe { libc::select(0, std::ptr::null_mut(), std::ptr::null_mut(), std::ptr::null_mut(), &mut tv) })
        }
    };
    let errno = if ret == -1 { unsafe { *libc::__errno_location() } } else { 0 };
    CallLog { call: c.clone(), at, elapsed: t.elapsed().as_nanos() as u64, ret, errno }
}

struct Shared {
    runs: AtomicU32,
    started: AtomicU64,
    ended: AtomicU64,
    calls: Mutex<Vec<CallLog>>,
    grown: AtomicU64,
}

/// is `name` resolved to the hook library (and not to libc)?
fn interposed(name: &str) -> bool {
    let c = std::ffi::CString::new(name).unwrap();
    unsafe {
        let p = libc::dlsym(libc::RTLD_DEFAULT, c.as_ptr());
        if p.is_null() {
            return false;
        }
        let mut info: libc::Dl_info = std::mem::zeroed();
        if libc::dladdr(p, &mut info) == 0 || info.dli_fname.is_null() {
            return false;
        }
        std::ffi::CStr::from_ptr(info.dli_fname).to_string_lossy().contains("open_coroutine_hook")
    }
}

type Handle = open_coroutine::JoinHandle<(u64, String)>;

fn log_join(joins: &mut Vec<JoinLog>, task: usize, timeout_ms: Option<u64>, last: bool, called: u64, r: std::io::Result<Option<(u64, String)>>) -> bool {
    let returned = now();
    let (kind, v, s) = match r {
        Ok(Some((v, s))) => ("value", Some(v), s),
        Ok(None) => ("none", None, String::new()),
        Err(e) => ("error", None, e.to_string()),
    };
    let settled = kind != "error" || !(s == "timeout join failed" || s == "join failed");
    joins.push(JoinLog { task, timeout_ms, last, called, returned, kind: kind.into(), v, s });
    settled
}

fn child_main() -> i32 {
    let c: Case = serde_json::from_value(child::read_stdin_json()).expect("case");
    let _ = now();
    // generated panics are part of the history: no report, no backtrace (symbolisation inside a
    // task would occupy the loop thread for seconds)
    let default_hook = std::panic::take_hook();
    std::panic::set_hook(Box::new(move |info| {
        let generated = info.payload().downcast_ref::<&'static str>().is_some_and(|s| s.contains("panics on purpose")) || info.payload().downcast_ref::<String>().is_some_and(|s| s.contains("panics on purpose"));
        if !generated {
            default_hook(info);
        }
    }));
    let mut cfg = open_coroutine::Config::default();
    let _ = cfg.set_event_loop_size(usize::from(c.loops.max(1))).set_hook(c.hook);
    if c.max_size > 0 {
        let _ = cfg.set_max_size(usize::from(c.max_size));
    }
    open_coroutine::init(cfg);
    let mut log = Log { interposed: interposed("usleep") && interposed("nanosleep") && interposed("select") && interposed("sleep"), ..Log::default() };
    let mut shared: Vec<Arc<Shared>> = vec![];
    let mut bodies: Vec<Body> = vec![];
    let mut submitted: Vec<u64> = vec![];
    let mut handles: Vec<Option<Handle>> = vec![];
    let mut cancelled: Vec<bool> = vec![];
    for (i, op) in c.ops.iter().enumerate() {
        child::emit(serde_json::json!({"ev":"start","k":i}));
        match op {
            Op::Task { body, prio } => {
                let k = shared.len();
                let sh = Arc::new(Shared { runs: AtomicU32::new(0), started: AtomicU64::new(0), ended: AtomicU64::new(0), calls: Mutex::new(vec![]), grown: AtomicU64::new(0) });
                let (s2, b2) = (sh.clone(), body.clone());
                submitted.push(now());
                let h: Handle = open_coroutine::task!(
                    move |k: usize| {
                        let _ = s2.runs.fetch_add(1, Ordering::SeqCst);
                        s2.started.store(now(), Ordering::SeqCst);
                        match &b2 {
                            Body::Value => {}
                            Body::PanicStatic => {
                                s2.ended.store(now(), Ordering::SeqCst);
                                panic!("api task panics on purpose (static text)");
                            }
                            Body::PanicString => {
                                s2.ended.store(now(), Ordering::SeqCst);
                                panic!("{}", panic_text(k));
                            }
                            Body::Calls(v) => {
                                for call in v {
                                    let l = do_call(call);
                                    s2.calls.lock().unwrap_or_else(std::sync::PoisonError::into_inner).push(l);
                                }
                            }
                            Body::Grow(g) => s2.grown.store(grow::run(g), Ordering::SeqCst),
                        }
                        s2.ended.store(now(), Ordering::SeqCst);
                        expected_value(k)
                    },
                    k,
                    std::ffi::c_longlong::from(*prio),
                );
                shared.push(sh);
                bodies.push(body.clone());
                handles.push(Some(h));
                cancelled.push(false);
            }
            Op::Join { task, timeout_ms } => {
                if shared.is_empty() {
                    continue;
                }
                let k = vkit::pick(*task, shared.len());
                if cancelled[k] || handles[k].is_none() {
                    continue;
                }
                let called = now();
                match timeout_ms {
                    None if c.loops <= 1 => {
                        let h = handles[k].take().unwrap();
                        let r = h.join();
                        let _ = log_join(&mut log.joins, k, None, false, called, r);
                    }
                    _ => {
                        let ms = u64::from(timeout_ms.unwrap_or(2500));
                        let r = handles[k].as_ref().unwrap().timeout_join(Duration::from_millis(ms));
                        if log_join(&mut log.joins, k, Some(ms), false, called, r) {
                            // the result has been handed over; the handle is spent
                            std::mem::forget(handles[k].take());
                        }
                    }
                }
            }
            Op::Cancel { task } => {
                if shared.is_empty() {
                    continue;
                }
                let k = vkit::pick(*task, shared.len());
                let Some(h) = handles[k].take() else { continue };
                let (sb, eb) = (shared[k].started.load(Ordering::SeqCst), shared[k].ended.load(Ordering::SeqCst));
                let at = now();
                let ok = h.try_cancel().is_ok();
                cancelled[k] = true;
                log.cancels.push(CancelLog { task: k, at, done: now(), ok, started_before: sb, ended_before: eb });
            }
            Op::Main(call) => log.main_calls.push(do_call(call)),
            Op::MainGrow(g) => log.main_grows.push((*g, grow::run(g).to_string())),
            Op::Pause(ms) => {
                // not a hooked call: poll(NULL, 0, ms) is not interposed
                unsafe {
                    let _ = libc::poll(std::ptr::null_mut(), 0, i32::from(*ms));
                }
            }
        }
        child::emit(serde_json::json!({"ev":"done","k":i}));
    }
    child::emit(serde_json::json!({"ev":"start","k":"epilogue"}));
    // settle: every task that was not cancelled is joined (limit 3 s each, 6 s in total)
    let t_end = Instant::now() + Duration::from_secs(6);
    for k in 0..handles.len() {
        if cancelled[k] {
            continue;
        }
        if let Some(h) = handles[k].take() {
            let left = t_end.saturating_duration_since(Instant::now()).min(Duration::from_secs(3)).max(Duration::from_millis(50));
            let called = now();
            let r = h.timeout_join(left);
            let _ = log_join(&mut log.joins, k, Some(left.as_millis() as u64), true, called, r);
            std::mem::forget(h);
        }
    }
    // tasks that are neither cancelled nor finished get until the 6 s are over
    while Instant::now() < t_end && (0..shared.len()).any(|k| !cancelled[k] && shared[k].ended.load(Ordering::SeqCst) == 0) {
        unsafe {
            let _ = libc::poll(std::ptr::null_mut(), 0, 5);
        }
    }
    // cancelled tasks that did start may still be on their way
    unsafe {
        let _ = libc::poll(std::ptr::null_mut(), 0, 30);
    }
    log.host_calm = vkit::timing::host_calm();
    for (k, sh) in shared.iter().enumerate() {
        log.tasks.push(TaskLog {
            k,
            body: bodies[k].clone(),
            submitted: submitted[k],
            started: sh.started.load(Ordering::SeqCst),
            ended: sh.ended.load(Ordering::SeqCst),
            runs: sh.runs.load(Ordering::SeqCst),
            calls: sh.calls.lock().unwrap_or_else(std::sync::PoisonError::into_inner).clone(),
            grown: sh.grown.load(Ordering::SeqCst).to_string(),
        });
    }
    child::emit(serde_json::json!({"ev":"result","log":log}));
    // no shutdown: leaving is what a user's main does when it returns without it
    unsafe { libc::_exit(0) }
}

// ------------------------------------------------------------------------------------------
// parent: run + judge
// ------------------------------------------------------------------------------------------

pub enum Run {
    Log(Log),
    Broken(String, String),
    Excluded(&'static str),
}

pub fn run_case(c: &Case) -> Run {
    let js = serde_json::to_string(c).unwrap();
    let r = child::run_child(&ChildSpec { args: vec!["APIchild".into()], stdin: &js, timeout: Duration::from_secs(60), env: vec![] });
    let op = r.open_op().map(|v| v["k"].clone());
    let what = op.as_ref().and_then(serde_json::Value::as_u64).and_then(|k| c.ops.get(k as usize)).map(|o| format!("{o:?}")).unwrap_or_else(|| format!("{op:?}"));
    match &r.end {
        End::Exit(0) => {}
        End::Signal(sig) => {
            return Run::Broken(
                format!("process-killed-by-signal-{sig}"),
                format!("the process died (signal {sig}) while the main thread executed {what}; {}", r.stderr_tail.lines().rev().take(3).collect::<Vec<_>>().join(" | ")),
            )
        }
        End::Deadline { cpu_busy } => {
            return Run::Broken(
                "driver-call-did-not-return".into(),
                format!("the main thread was still inside {what} after 60 s ({})", if *cpu_busy { "burning CPU" } else { "blocked" }),
            )
        }
        End::Exit(101) => {
            return Run::Broken("main-thread-panicked".into(), format!("the main thread panicked in {what}: {}", r.stderr_tail.lines().rev().take(4).collect::<Vec<_>>().join(" | ")));
        }
        End::Exit(_) => return Run::Excluded("child-exited-nonzero"),
    }
    let Some(res) = r.result() else { return Run::Excluded("child-gave-no-result") };
    match serde_json::from_value::<Log>(res["log"].clone()) {
        Ok(l) => Run::Log(l),
        Err(_) => Run::Excluded("child-log-unreadable"),
    }
}

const PROMPT_NS: u64 = 250_000_000;
const MS: u64 = 1_000_000;

fn own(t: &TaskLog) -> String {
    match t.body {
        Body::PanicStatic => "panic \"api task panics on purpose (static text)\"".into(),
        Body::PanicString => format!("panic {:?}", panic_text(t.k)),
        _ => format!("Some({:?})", expected_value(t.k)),
    }
}

/// did a cancel possibly meet a task that had started and not finished?
fn cancel_met_started(l: &Log) -> bool {
    l.cancels.iter().any(|x| {
        let t = &l.tasks[x.task];
        let started_by_then = t.started != 0 && t.started <= x.done;
        let ended_before = x.ended_before != 0;
        started_by_then && !ended_before
    })
}

pub fn judge(prop: &str, c: &Case, run: Run) -> Outcome {
    let mut o = Outcome::pass();
    let many = c.loops >= 2;
    let l = match run {
        Run::Log(l) => l,
        Run::Broken(sig, msg) => {
            let has_cancel = c.ops.iter().any(|x| matches!(x, Op::Cancel { .. }));
            let pre = match (prop, many, has_cancel) {
                ("C13", false, true) => "C13/cancel-of-a-started-task".to_string(),
                ("C13", true, true) => "C13/2+loops/cancel-of-a-started-task".to_string(),
                (p, true, _) if p == "C02" => "C02/2+loops".to_string(),
                (p, _, _) => format!("{p}/api"),
            };
            o.set_fail(format!("{pre}/{sig}"), msg);
            return o;
        }
        Run::Excluded(why) => {
            o.excluded = Some(why);
            return o;
        }
    };
    if !l.interposed {
        o.excluded = Some("libc-symbols-not-interposed");
        return o;
    }
    let targets: std::collections::HashSet<usize> = l.cancels.iter().map(|x| x.task).collect();
    let in_task_calls: usize = l.tasks.iter().map(|t| t.calls.len()).sum();
    o = o
        .class_if(many, "2+event-loops")
        .class_if(c.hook, "hook-flag-on")
        .class_if(c.max_size > 0, "bounded-workers")
        .class_if(in_task_calls > 0, "libc-call-inside-a-task")
        .class_if(!l.main_calls.is_empty(), "libc-call-on-the-main-thread")
        .class_if(!l.cancels.is_empty(), "cancel")
        .class_if(l.tasks.iter().any(|t| t.body.panics()), "panicking-task");
    match prop {
        "C01" => {
            let n = l.tasks.iter().filter(|t| !targets.contains(&t.k)).count();
            o.nontrivial = n >= 2;
            if !l.host_calm && l.tasks.iter().any(|t| !targets.contains(&t.k) && t.ended == 0) {
                o.excluded = Some("host-not-responsive-during-quiescence");
                return o;
            }
            for t in l.tasks.iter().filter(|t| !targets.contains(&t.k)) {
                if t.runs == 0 {
                    o.set_fail("C01/task-never-executed", format!("task {} {:?} was created {} ms before the end of the run and never executed", t.k, t.body, (l.tasks.iter().map(|x| x.ended).max().unwrap_or(0).saturating_sub(t.submitted)) / MS));
                    return o;
                }
                if t.runs > 1 {
                    o.set_fail("C01/task-executed-more-than-once", format!("task {} {:?} executed {} times", t.k, t.body, t.runs));
                    return o;
                }
            }
        }
        "C02" => {
            let pre = if many { "C02/2+loops" } else { "C02" };
            let judged: Vec<&JoinLog> = l.joins.iter().filter(|j| !targets.contains(&j.task)).collect();
            o.nontrivial = !judged.is_empty();
            o = o.class_if(judged.iter().any(|j| l.tasks[j.task].body.panics()), "joined-task-panicked").class_if(judged.iter().any(|j| j.timeout_ms.is_none()), "untimed-join");
            for j in judged {
                let t = &l.tasks[j.task];
                let what = format!("{} on task {} {:?}", j.timeout_ms.map_or("join()".to_string(), |ms| format!("timeout_join({ms} ms)")), t.k, t.body);
                match j.kind.as_str() {
                    "value" => {
                        let e = expected_value(t.k);
                        if t.body.panics() || j.v != Some(e.0) || j.s != e.1 {
                            o.set_fail(format!("{pre}/join-returned-a-foreign-value"), format!("{what} returned ({:?}, {:?}); the task's own outcome is {}", j.v, j.s, own(t)));
                            return o;
                        }
                    }
                    "none" => {
                        o.set_fail(format!("{pre}/join-returned-a-foreign-value"), format!("{what} returned None; the task's own outcome is {}", own(t)));
                        return o;
                    }
                    _ if j.s == "timeout join failed" || j.s == "join failed" => {
                        if j.timeout_ms.is_none() {
                            o.set_fail(format!("{pre}/join-failed"), format!("{what} failed: {}", j.s));
                            return o;
                        }
                        let deadline = j.called + j.timeout_ms.unwrap_or(0) * MS;
                        let grace = if t.body.panics() { 150 * MS } else { 25 * MS };
                        if t.ended != 0 && t.ended + grace < deadline {
                            o.set_fail(format!("{pre}/join-timed-out-although-the-task-had-finished"), format!("{what} failed ({}) although the body had finished {} ms before the limit", j.s, (deadline - t.ended) / MS));
                            return o;
                        }
                    }
                    _ => {
                        let ok = match t.body {
                            Body::PanicStatic => j.s == "api task panics on purpose (static text)",
                            Body::PanicString => j.s == panic_text(t.k),
                            _ => false,
                        };
                        if !ok {
                            let kind = if t.body.panics() { "panic-message-not-the-tasks-own" } else { "join-returned-a-foreign-error" };
                            o.set_fail(format!("{pre}/{kind}"), format!("{what} returned the error {:?}; the task's own outcome is {}", j.s, own(t)));
                            return o;
                        }
                    }
                }
                let settled = !(j.s == "timeout join failed" || j.s == "join failed");
                if settled && t.ended != 0 && j.returned > t.ended.max(j.called) + PROMPT_NS {
                    o.set_fail(format!("{pre}/join-returned-late"), format!("{what} returned {} ms after the task had finished and the call was made", (j.returned - t.ended.max(j.called)) / MS));
                    return o;
                }
            }
        }
        "C13" => {
            let pre = if many { "C13/2+loops" } else { "C13" };
            let met = cancel_met_started(&l);
            let before_start: Vec<&CancelLog> = l.cancels.iter().filter(|x| x.started_before == 0).collect();
            o.nontrivial = !l.cancels.is_empty();
            o = o.class_if(met, "cancel-may-have-met-a-started-task").class_if(!before_start.is_empty(), "cancel-before-the-task-was-seen-started");
            // (a) a task cancelled before it starts never runs
            for x in &l.cancels {
                let t = &l.tasks[x.task];
                if x.ok && t.started != 0 && t.started > x.done + MS {
                    o.set_fail(format!("{pre}/cancelled-task-executed"), format!("task {} {:?} was cancelled (try_cancel returned at {} ms) and started executing {} ms later", t.k, t.body, x.done / MS, (t.started - x.done) / MS));
                    return o;
                }
            }
            // (b) nobody else is affected
            let fam = if met { format!("{pre}/cancel-of-a-started-task") } else { pre.to_string() };
            if !l.host_calm && l.tasks.iter().any(|t| !targets.contains(&t.k) && t.ended == 0) {
                o.excluded = Some("host-not-responsive-during-quiescence");
                return o;
            }
            for t in l.tasks.iter().filter(|t| !targets.contains(&t.k)) {
                if t.runs == 0 {
                    o.set_fail(format!("{fam}/bystander-never-executed"), format!("task {} {:?}, never cancelled, did not execute ({} cancel(s) in the history)", t.k, t.body, l.cancels.len()));
                    return o;
                }
                if t.ended == 0 {
                    o.set_fail(format!("{fam}/bystander-interrupted"), format!("task {} {:?}, never cancelled, started and never reached its end", t.k, t.body));
                    return o;
                }
            }
            for j in l.joins.iter().filter(|j| !targets.contains(&j.task)) {
                let t = &l.tasks[j.task];
                let bad = match j.kind.as_str() {
                    "value" => t.body.panics() || j.v != Some(expected_value(t.k).0),
                    "none" => true,
                    _ if j.s == "timeout join failed" || j.s == "join failed" => false, // judged by C02
                    _ => !t.body.panics(),
                };
                if bad {
                    o.set_fail(format!("{fam}/bystander-interrupted"), format!("join on task {} {:?}, never cancelled, returned {} {:?} {:?}", t.k, t.body, j.kind, j.v, j.s));
                    return o;
                }
            }
        }
        "C14" => {
            let hooked_main = c.hook && !l.main_calls.is_empty();
            o.nontrivial = in_task_calls > 0 || hooked_main;
            let all = l.tasks.iter().flat_map(|t| t.calls.iter().map(|x| ("task", x))).chain(l.main_calls.iter().map(|x| ("main-thread", x)));
            for (place, x) in all {
                let name = x.call.name();
                let what = format!("{:?} {} (hook flag {})", x.call, if place == "task" { "inside a task" } else { "on the main thread" }, c.hook);
                if x.call.invalid() {
                    o = o.class("invalid-time-argument");
                    if !(x.ret == -1 && x.errno == libc::EINVAL) {
                        o.set_fail(format!("C14/{name}/invalid-argument-not-rejected-with-EINVAL"), format!("{what} returned {} errno {} after {} ms", x.ret, x.errno, x.elapsed / MS));
                        return o;
                    }
                    if x.elapsed > PROMPT_NS {
                        o.set_fail(format!("C14/{name}/not-prompt"), format!("{what} was rejected only after {} ms", x.elapsed / MS));
                        return o;
                    }
                    continue;
                }
                let req = Duration::from_nanos(x.call.nominal_ns());
                if x.ret != 0 {
                    o.set_fail(format!("C14/{name}/wrong-return-value"), format!("{what} returned {} errno {} after {} ms", x.ret, x.errno, x.elapsed / MS));
                    return o;
                }
                if !vkit::timing::not_early(Duration::from_nanos(x.elapsed), req) {
                    o.set_fail(format!("C14/{name}/returned-earlier-than-requested"), format!("{what} returned after {} us", x.elapsed / 1000));
                    return o;
                }
                if Duration::from_nanos(x.elapsed) > vkit::timing::upper_bound(req, Duration::from_millis(150)) {
                    o.set_fail(format!("C14/{name}/returned-later-than-timeout-plus-slack"), format!("{what} returned after {} ms", x.elapsed / MS));
                    return o;
                }
            }
        }
        "C23" => {
            let grows: Vec<(&TaskLog, &grow::Grow)> = l.tasks.iter().filter_map(|t| if let Body::Grow(g) = &t.body { Some((t, g)) } else { None }).collect();
            o.nontrivial = !grows.is_empty() || !l.main_grows.is_empty();
            o = o.class_if(!grows.is_empty(), "recursion-inside-a-task").class_if(!l.main_grows.is_empty(), "recursion-on-the-main-thread").class_if(grows.iter().any(|(_, g)| g.again_at.is_some()) || l.main_grows.iter().any(|(g, _)| g.again_at.is_some()), "second-descent-from-a-frame");
            for (g, v) in &l.main_grows {
                let want = grow::model(g).to_string();
                if *v != want {
                    o.set_fail("C23/api/thread/value-changed", format!("main thread: {g:?} returned {v}, the model says {want} (u64::MAX = second descent differed, u64::MAX - 1 = maybe_grow failed)"));
                    return o;
                }
            }
            for (t, g) in grows {
                if targets.contains(&t.k) || t.ended == 0 {
                    continue; // C01's business
                }
                let want = grow::model(g).to_string();
                if t.grown != want {
                    o.set_fail("C23/api/coroutine/value-changed", format!("task {}: {g:?} returned {}, the model says {want} (u64::MAX = second descent differed, u64::MAX - 1 = maybe_grow failed)", t.k, t.grown));
                    return o;
                }
            }
        }
        "C15" => {
            // every task that only waits gets a worker of its own (unbounded pools): its latency
            // is its own waiting time, whatever the others do
            let waiters: Vec<&TaskLog> = l.tasks.iter().filter(|t| !targets.contains(&t.k) && t.body.nominal_ns() >= 20 * MS).collect();
            let overlapping = waiters.iter().filter(|t| waiters.iter().any(|u| u.k != t.k && u.submitted < t.submitted + t.body.nominal_ns() && t.submitted < u.submitted + u.body.nominal_ns())).count();
            o.nontrivial = overlapping >= 2 && c.max_size == 0;
            if c.max_size != 0 {
                return o;
            }
            for t in &waiters {
                if t.ended == 0 {
                    continue; // C01's business
                }
                let nominal = t.body.nominal_ns();
                let lat = t.ended.saturating_sub(t.submitted);
                let bound = nominal + (300 * MS).max(nominal / 2);
                if lat > bound {
                    o.set_fail(
                        "C15/waiting-task-delayed-by-its-siblings",
                        format!("task {} {:?} waits {} ms in hooked calls but finished {} ms after it was created (bound {} ms); {} waiting task(s) overlapped it", t.k, t.body, nominal / MS, lat / MS, bound / MS, overlapping),
                    );
                    return o;
                }
            }
        }
        _ => unreachable!(),
    }
    o
}

fn is_timing(sig: &str) -> bool {
    sig.ends_with("/join-returned-late") || sig.ends_with("/returned-later-than-timeout-plus-slack") || sig.ends_with("/not-prompt") || sig.ends_with("/waiting-task-delayed-by-its-siblings")
}

pub fn exec_once(prop: &str, c: &Case) -> Outcome {
    judge(prop, c, run_case(c))
}

pub fn exec(prop: &str, c: &Case) -> Outcome {
    vkit::timing::confirm_repeat(exec_once(prop, c), is_timing, || exec_once(prop, c), 3)
}

// ------------------------------------------------------------------------------------------
// generators
// ------------------------------------------------------------------------------------------

fn call() -> impl Strategy<Value = Call> {
    prop_oneof![
        1 => Just(Call::Sleep(0)),
        1 => Just(Call::Sleep(1)),
        6 => prop_oneof![0u32..2_000, 2_000u32..300_000].prop_map(Call::Usleep),
        4 => (0i64..1, prop_oneof![0i64..2_000_000, 2_000_000i64..300_000_000]).prop_map(|(sec, nsec)| Call::Nanosleep { sec, nsec }),
        1 => prop_oneof![Just((0i64, -1i64)), Just((0, 1_000_000_000)), Just((-1, 0)), Just((0, i64::MAX)), Just((0, 1_999_999_999))].prop_map(|(sec, nsec)| Call::Nanosleep { sec, nsec }),
        4 => (0i64..1, prop_oneof![0i64..2_000, 2_000i64..300_000]).prop_map(|(sec, usec)| Call::Select { sec, usec }),
        1 => prop_oneof![Just((0i64, -1i64)), Just((-1, 0)), Just((-1, 500))].prop_map(|(sec, usec)| Call::Select { sec, usec }),
    ]
}

fn grow_case() -> impl Strategy<Value = grow::Grow> {
    (1u8..=60, 0u8..3, 12u8..=48, 16u8..=64, proptest::option::weighted(0.5, 0u8..60)).prop_map(|(depth, frame, red_kib, extra_kib, again_at)| {
        let f_kib = [1u8, 4, 8][usize::from(frame)];
        grow::Grow { depth, frame, red_kib: red_kib.max(f_kib + 8), extra_kib, again_at: again_at.map(|a| a % depth) }
    })
}

fn body(w_calls: u32, w_grow: u32) -> impl Strategy<Value = Body> {
    prop_oneof![
        4 => Just(Body::Value),
        2 => Just(Body::PanicStatic),
        2 => Just(Body::PanicString),
        w_calls => proptest::collection::vec(call(), 1..4).prop_map(Body::Calls),
        w_grow => grow_case().prop_map(Body::Grow),
    ]
}

pub fn strategy(prop: &'static str) -> impl Strategy<Value = Case> {
    // weights: task, join, cancel, main call, pause; body weight of libc calls
    let (wt, wj, wc, wm, wp, wb) = match prop {
        "C01" => (10, 2, 0, 1, 2, 4),
        "C02" => (6, 6, 0, 1, 2, 4),
        "C13" => (7, 2, 4, 0, 3, 8),
        "C14" => (5, 1, 0, 5, 1, 16),
        "C23" => (8, 2, 0, 0, 1, 2),
        _ => (8, 1, 0, 1, 2, 24),
    };
    // weight of growing bodies / main-thread recursions (C23 only; C01 gets a few as ordinary work)
    let (wg, wmg) = match prop {
        "C23" => (30, 4),
        "C01" => (1, 0),
        _ => (0, 0),
    };
    let timeout = prop_oneof![2 => Just(None), 1 => Just(Some(30u16)), 2 => (30u16..400).prop_map(Some), 2 => (400u16..3000).prop_map(Some)];
    let op = prop_oneof![
        wt => (body(wb, wg), -3i8..4).prop_map(|(body, prio)| Op::Task { body, prio }),
        wmg => grow_case().prop_map(Op::MainGrow),
        wj => (any::<u16>(), timeout).prop_map(|(task, timeout_ms)| Op::Join { task, timeout_ms }),
        wc => any::<u16>().prop_map(|task| Op::Cancel { task }),
        wm => call().prop_map(Op::Main),
        wp => (0u8..40).prop_map(Op::Pause),
    ];
    let max_size = if prop == "C13" { prop_oneof![2 => Just(1u8), 1 => Just(2u8), 1 => Just(0u8)].boxed() } else if prop == "C15" { Just(0u8).boxed() } else { prop_oneof![4 => Just(0u8), 1 => 1u8..4].boxed() };
    let n = if prop == "C01" { 2..40usize } else { 2..14usize };
    (prop_oneof![3 => Just(1u8), 1 => 2u8..=3], any::<bool>(), max_size, proptest::collection::vec(op, n)).prop_map(|(loops, hook, max_size, ops)| Case { loops, hook, max_size, ops })
}

fn rule(prop: &str) -> &'static str {
    match prop {
        "C01" => "[through the public API] fresh process per case: init(event loops 1..3, hook flag, worker limit), 2..39 ops out of task!(value | panic | timed libc calls), join/timeout_join, timed libc call on the main thread, pause; every task is awaited at the end; non-trivial = at least 2 tasks that were never cancelled",
        "C02" => "[through the public API] fresh process per case: 2..13 ops out of task!(value (u64, String) | &str panic | String panic | timed libc calls), join() (one loop only) and timeout_join(30 ms .. 3 s), timed libc call on the main thread, pause; non-trivial = at least one judged join",
        "C13" => "[through the public API] fresh process per case: worker limit 1, 2 or default; 2..13 ops out of task!, try_cancel, join, pause; non-trivial = at least one cancel",
        "C23" => "[through the public API] fresh process per case: tasks whose body is a recursion of 1..60 levels (1/4/8 KiB frames, red zone 12..48 KiB, segment = red zone + 16..64 KiB) entered level by level through open_coroutine::maybe_grow, optionally descending a second time from one level, next to ordinary tasks; the same recursion on the main thread; non-trivial = at least one such recursion",
        "C14" => "[through the interposed libc symbols] fresh process per case: sleep/usleep/nanosleep/select with generated (also invalid) time arguments, inside tasks and on the main thread, hook flag on and off; non-trivial = a call made inside a task, or on the main thread with the hook flag on",
        _ => "[through the interposed libc symbols] fresh process per case: tasks that wait in sleep/usleep/nanosleep/select for generated times, unbounded pools; non-trivial = at least 2 waiting tasks whose waits overlap",
    }
}

fn leak(s: String) -> &'static str {
    Box::leak(s.into_boxed_str())
}

fn main_for(args: &Args, prop: &'static str) -> i32 {
    if let Some(p) = &args.replay {
        let (_, _, case) = vkit::load_replay(p);
        let c: Case = serde_json::from_value(case).expect("case");
        let mut worst = Outcome::pass();
        for _ in 0..5 {
            let o = exec(prop, &c);
            if o.fail.is_some() {
                worst = o;
                break;
            }
        }
        return vkit::replay_verdict(prop, p, &worst);
    }
    let mut ev = Evidence::new(prop, args, "exploration");
    ev.assume("api sub-run: the process links the hook library built from /repo's current tree; libc symbols are checked to resolve to it (dladdr), otherwise the case is excluded and the run is vacuous");
    ev.assume("timing deviations (late join, late return of a timed call, delayed waiting task) count only if they repeat in 3 fresh re-executions");
    let sub = leak(format!("api-{}", prop.to_lowercase()));
    let (q, t) = match prop {
        "C01" => (150, 3_000),
        "C02" => (200, 4_000),
        "C13" => (160, 3_000),
        "C14" => (200, 4_000),
        "C23" => (150, 3_000),
        _ => (120, 2_000),
    };
    ev.add(vkit::run_regress_in(prop, &format!("{prop}-api"), |_s, case| exec(prop, &serde_json::from_value(case).expect("case"))));
    if ev.has_violations() {
        return ev.finish();
    }
    ev.add(vkit::run_prop(&RunCfg { property: prop, sub, rule: rule(prop), seed: args.seed, cases: args.cases(q, t), shards: 12, max_shrink_iters: 60 }, || strategy(prop), |c| exec(prop, c)));
    ev.finish()
}

fn main() {
    let args = Args::parse();
    let code = match args.engine.as_str() {
        "APIchild" => child_main(),
        "C01" => main_for(&args, "C01"),
        "C02" => main_for(&args, "C02"),
        "C13" => main_for(&args, "C13"),
        "C14" => main_for(&args, "C14"),
        "C15" => main_for(&args, "C15"),
        "C23" => main_for(&args, "C23"),
        other => {
            eprintln!("vapi: unknown engine {other}");
            2
        }
    };
    std::process::exit(code);
}

fn main() {
    // the hook library is copied next to the dependencies by open-coroutine's build script;
    // the `check` driver puts a freshly built copy in front of it through LD_LIBRARY_PATH
    println!("cargo:rustc-link-arg=-Wl,-rpath,$ORIGIN/deps");
    println!("cargo:rerun-if-changed=build.rs");
}

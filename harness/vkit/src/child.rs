//! Child-process executor: runs `current_exe() <args>` with a JSON case on stdin, collects
//! the line protocol the child prints on stdout, enforces a deadline, and classifies how
//! the child ended. Used whenever process-global runtime state, crashes or hangs are part
//! of what a case may produce.

use serde_json::Value;
use std::io::{Read, Write};
use std::process::{Command, Stdio};
use std::time::{Duration, Instant};

#[derive(Debug, Clone, PartialEq, Eq)]
pub enum End {
    Exit(i32),
    Signal(i32),
    /// killed by the parent at the deadline; `cpu_busy` says whether it was burning CPU
    /// during the last 300 ms before the kill (spin) or blocked (sleep/deadlock).
    Deadline { cpu_busy: bool },
}

#[derive(Debug, Clone)]
pub struct ChildResult {
    pub end: End,
    pub lines: Vec<Value>,
    pub raw_stdout: String,
    pub stderr_tail: String,
    pub wall: Duration,
}

impl ChildResult {
    /// last `{"ev":"start","k":..}` without a matching `done`
    pub fn open_op(&self) -> Option<Value> {
        let mut open: Option<Value> = None;
        for l in &self.lines {
            match l.get("ev").and_then(Value::as_str) {
                Some("start") => open = Some(l.clone()),
                Some("done") => open = None,
                _ => {}
            }
        }
        open
    }
    pub fn find(&self, ev: &str) -> Vec<&Value> {
        self.lines
            .iter()
            .filter(|l| l.get("ev").and_then(Value::as_str) == Some(ev))
            .collect()
    }
    pub fn result(&self) -> Option<&Value> {
        self.lines
            .iter()
            .rev()
            .find(|l| l.get("ev").and_then(Value::as_str) == Some("result"))
    }
}

fn cpu_ticks(pid: u32) -> Option<u64> {
    let s = std::fs::read_to_string(format!("/proc/{pid}/stat")).ok()?;
    let rest = s.rsplit_once(')')?.1;
    let f: Vec<&str> = rest.split_whitespace().collect();
    // after ')' : state(0) ppid(1) ... utime is field 14 overall => index 11 here, stime 12
    let ut: u64 = f.get(11)?.parse().ok()?;
    let st: u64 = f.get(12)?.parse().ok()?;
    Some(ut + st)
}

pub struct ChildSpec<'a> {
    pub args: Vec<String>,
    pub stdin: &'a str,
    pub timeout: Duration,
    pub env: Vec<(String, String)>,
}

pub fn run_child(spec: &ChildSpec<'_>) -> ChildResult {
    let exe = std::env::current_exe().expect("current_exe");
    let start = Instant::now();
    let mut cmd = Command::new(exe);
    cmd.args(&spec.args)
        .stdin(Stdio::piped())
        .stdout(Stdio::piped())
        .stderr(Stdio::piped())
        .env("RUST_BACKTRACE", "0");
    for (k, v) in &spec.env {
        cmd.env(k, v);
    }
    let mut ch = cmd.spawn().expect("spawn child");
    let pid = ch.id();
    {
        let mut si = ch.stdin.take().unwrap();
        let _ = si.write_all(spec.stdin.as_bytes());
    }
    let mut so = ch.stdout.take().unwrap();
    let mut se = ch.stderr.take().unwrap();
    let t_out = std::thread::spawn(move || {
        let mut s = Vec::new();
        let _ = so.read_to_end(&mut s);
        String::from_utf8_lossy(&s).into_owned()
    });
    let t_err = std::thread::spawn(move || {
        let mut s = Vec::new();
        let _ = se.read_to_end(&mut s);
        let s = String::from_utf8_lossy(&s).into_owned();
        let n = s.len();
        if n > 4000 {
            let mut cut = n - 4000;
            while !s.is_char_boundary(cut) {
                cut += 1;
            }
            s[cut..].to_string()
        } else {
            s
        }
    });
    let deadline = start + spec.timeout;
    let end;
    loop {
        match ch.try_wait() {
            Ok(Some(st)) => {
                use std::os::unix::process::ExitStatusExt;
                end = if let Some(c) = st.code() {
                    End::Exit(c)
                } else {
                    End::Signal(st.signal().unwrap_or(-1))
                };
                break;
            }
            Ok(None) => {
                if Instant::now() >= deadline {
                    let a = cpu_ticks(pid);
                    std::thread::sleep(Duration::from_millis(300));
                    let b = cpu_ticks(pid);
                    let busy = match (a, b) {
                        (Some(a), Some(b)) => b.saturating_sub(a) >= 15, // >=150ms of 300ms
                        _ => false,
                    };
                    let _ = ch.kill();
                    let _ = ch.wait();
                    end = End::Deadline { cpu_busy: busy };
                    break;
                }
                let el = start.elapsed();
                std::thread::sleep(if el < Duration::from_millis(50) {
                    Duration::from_micros(300)
                } else {
                    Duration::from_millis(2)
                });
            }
            Err(_) => {
                end = End::Exit(-999);
                break;
            }
        }
    }
    let raw = t_out.join().unwrap_or_default();
    let err = t_err.join().unwrap_or_default();
    let lines = raw
        .lines()
        .filter_map(|l| serde_json::from_str::<Value>(l).ok())
        .collect();
    ChildResult {
        end,
        lines,
        raw_stdout: raw,
        stderr_tail: err,
        wall: start.elapsed(),
    }
}

/// helpers for the child side ---------------------------------------------------------

pub fn read_stdin_json() -> Value {
    let mut s = String::new();
    let _ = std::io::stdin().read_to_string(&mut s);
    serde_json::from_str(&s).unwrap_or_else(|e| {
        eprintln!("child: bad case json: {e}");
        std::process::exit(3)
    })
}

/// print one protocol line and flush (so it survives an abort right after)
pub fn emit(v: Value) {
    let out = std::io::stdout();
    let mut l = out.lock();
    let _ = writeln!(l, "{v}");
    let _ = l.flush();
}

/// Raw write(2) of a protocol line — usable where std's stdout lock might be unavailable.
pub fn emit_raw(s: &str) {
    let line = format!("{s}\n");
    unsafe {
        let _ = libc::write(1, line.as_ptr().cast(), line.len());
    }
}

//! vkit — shared machinery for every check:
//!  * seeded proptest runner with shrinking, sharded over threads,
//!  * case counting / classification / sample capture,
//!  * known-finding matching (signatures, never written at run time),
//!  * replay-file and evidence-file writers,
//!  * child-process executor with op log and watchdog (see `child`).
//!
//! Exit-code contract (see DESIGN.md §2.1): 0 held / 1 violation / 2 could not decide.

pub mod child;
pub mod timing;

use proptest::strategy::{Strategy, ValueTree};
use proptest::test_runner::{Config, RngAlgorithm, RngSeed, TestCaseError, TestError, TestRunner};
use serde::Serialize;
use serde_json::{json, Value};
use std::collections::{BTreeMap, BTreeSet, HashSet};
use std::fmt::Debug;
use std::hash::{Hash, Hasher};
use std::path::PathBuf;
use std::sync::Mutex;
use std::time::Instant;

pub use proptest;
pub use serde;
pub use serde_json;

/// Where /verif lives (the `check` script exports VERIF_DIR).
pub fn verif_dir() -> PathBuf {
    std::env::var_os("VERIF_DIR")
        .map(PathBuf::from)
        .unwrap_or_else(|| PathBuf::from("/verif"))
}

/// Where evidence files go: /verif/evidence, unless VERIF_EVIDENCE_DIR redirects it (the
/// sensitivity helpers run checks against a deliberately broken /repo and must not
/// overwrite the evidence of the unchanged tree).
pub fn evidence_dir() -> PathBuf {
    std::env::var_os("VERIF_EVIDENCE_DIR")
        .map(PathBuf::from)
        .unwrap_or_else(|| verif_dir().join("evidence"))
}

#[derive(Debug, Clone, Copy, PartialEq, Eq)]
pub enum Tier {
    Quick,
    Thorough,
}

impl Tier {
    pub fn name(self) -> &'static str {
        match self {
            Tier::Quick => "quick",
            Tier::Thorough => "thorough",
        }
    }
    pub fn pick<T>(self, quick: T, thorough: T) -> T {
        match self {
            Tier::Quick => quick,
            Tier::Thorough => thorough,
        }
    }
}

/// Command line shared by every engine binary:
/// `<bin> <engine> [--tier quick|thorough] [--seed N] [--replay file] [--scale F]`
#[derive(Debug, Clone)]
pub struct Args {
    pub engine: String,
    pub tier: Tier,
    pub seed: u64,
    pub replay: Option<PathBuf>,
    /// multiplies case counts (used by sensitivity runs to shorten/lengthen)
    pub scale: f64,
    pub rest: Vec<String>,
}

impl Args {
    pub fn parse() -> Args {
        let mut it = std::env::args().skip(1);
        let engine = it.next().unwrap_or_else(|| {
            eprintln!("usage: <bin> <engine> [--tier quick|thorough] [--seed N] [--replay file]");
            std::process::exit(2)
        });
        let mut a = Args {
            engine,
            tier: match std::env::var("VERIF_TIER").as_deref() {
                Ok("thorough") => Tier::Thorough,
                _ => Tier::Quick,
            },
            seed: std::env::var("VERIF_SEED")
                .ok()
                .and_then(|s| s.trim().parse::<i128>().ok())
                .map(|v| v as u64)
                .unwrap_or(0),
            replay: None,
            scale: std::env::var("VERIF_SCALE")
                .ok()
                .and_then(|s| s.parse().ok())
                .unwrap_or(1.0),
            rest: vec![],
        };
        while let Some(x) = it.next() {
            match x.as_str() {
                "--tier" => {
                    a.tier = match it.next().as_deref() {
                        Some("thorough") => Tier::Thorough,
                        _ => Tier::Quick,
                    }
                }
                "--seed" => {
                    a.seed = it
                        .next()
                        .and_then(|s| s.parse::<i128>().ok())
                        .map(|v| v as u64)
                        .unwrap_or(0)
                }
                "--replay" => a.replay = it.next().map(PathBuf::from),
                "--scale" => a.scale = it.next().and_then(|s| s.parse().ok()).unwrap_or(1.0),
                _ => a.rest.push(x),
            }
        }
        a
    }
    pub fn cases(&self, quick: u32, thorough: u32) -> u32 {
        let n = self.tier.pick(quick, thorough) as f64 * self.scale;
        (n.ceil() as u32).max(1)
    }
}

pub fn hash64<T: Hash + ?Sized>(t: &T) -> u64 {
    // FNV-1a based stable hasher (DefaultHasher is stable within a build; we only need
    // in-run distinctness, but keep it deterministic across runs anyway).
    struct Fnv(u64);
    impl Hasher for Fnv {
        fn finish(&self) -> u64 {
            self.0
        }
        fn write(&mut self, bytes: &[u8]) {
            for b in bytes {
                self.0 ^= u64::from(*b);
                self.0 = self.0.wrapping_mul(0x100000001b3);
            }
        }
    }
    let mut h = Fnv(0xcbf29ce484222325);
    t.hash(&mut h);
    h.finish()
}

pub fn derive_seed(seed: u64, engine: &str, shard: u32) -> [u8; 32] {
    let mut out = [0u8; 32];
    for i in 0..4u64 {
        let v = hash64(&(seed, engine, shard, i, 0x5eed_u64));
        out[(i as usize) * 8..(i as usize + 1) * 8].copy_from_slice(&v.to_le_bytes());
    }
    out
}

/// Monotone index mapping (shrinks towards 0): picks `0..n` from a u16.
pub fn pick(ix: u16, n: usize) -> usize {
    if n == 0 {
        return 0;
    }
    ((ix as usize) * n) >> 16
}

/// What an oracle says about one executed case.
#[derive(Debug, Clone, Default)]
pub struct Outcome {
    /// `Some((signature, message))` when the property is violated by this case.
    pub fail: Option<(String, String)>,
    /// non-trivial by the property's stated rule
    pub nontrivial: bool,
    /// labels for the class histogram
    pub classes: Vec<&'static str>,
    /// case was discarded (generator produced a shape excluded by a known finding etc.)
    pub excluded: Option<&'static str>,
    /// a deviation that is timing-transient (recorded, never a violation)
    pub transient: bool,
}

impl Outcome {
    pub fn pass() -> Self {
        Outcome::default()
    }
    pub fn fail(sig: impl Into<String>, msg: impl Into<String>) -> Self {
        Outcome {
            fail: Some((sig.into(), msg.into())),
            ..Default::default()
        }
    }
    pub fn nt(mut self, b: bool) -> Self {
        self.nontrivial = b;
        self
    }
    pub fn class(mut self, c: &'static str) -> Self {
        self.classes.push(c);
        self
    }
    pub fn class_if(mut self, cond: bool, c: &'static str) -> Self {
        if cond {
            self.classes.push(c);
        }
        self
    }
    pub fn set_fail(&mut self, sig: impl Into<String>, msg: impl Into<String>) {
        if self.fail.is_none() {
            self.fail = Some((sig.into(), msg.into()));
        }
    }
}

#[derive(Debug, Clone, Serialize)]
pub struct Violation {
    pub sub: String,
    pub signature: String,
    pub message: String,
    pub case: Value,
    pub replay: Option<String>,
}

/// Statistics of one sub-run (one generator + oracle).
#[derive(Debug, Default)]
pub struct Stats {
    pub name: String,
    pub rule: String,
    pub evaluations: u64,
    pub nontrivial_fps: HashSet<u64>,
    pub nontrivial_total: u64,
    pub classes: BTreeMap<String, u64>,
    pub samples: Vec<Value>,
    pub excluded: BTreeMap<String, u64>,
    pub known_hits: BTreeMap<String, u64>,
    pub known_samples: BTreeMap<String, Value>,
    pub transient_timing: u64,
    pub violations: Vec<Violation>,
    pub exhaustive: bool,
    pub notes: Vec<String>,
    /// first executed case, used as a sample when no non-trivial case was recorded
    pub fallback_sample: Option<Value>,
    biggest: usize,
}

impl Stats {
    pub fn new(name: &str, rule: &str) -> Self {
        Stats {
            name: name.into(),
            rule: rule.into(),
            ..Default::default()
        }
    }

    /// Record an executed case (call exactly once per case, not for shrink re-runs).
    pub fn record(&mut self, case_json: impl FnOnce() -> Value, fp: u64, size: usize, o: &Outcome) {
        self.evaluations += 1;
        let mut case_json = Some(case_json);
        if self.fallback_sample.is_none() && !o.nontrivial {
            self.fallback_sample = case_json.take().map(|f| f());
        }
        for c in &o.classes {
            *self.classes.entry((*c).to_string()).or_default() += 1;
        }
        if let Some(e) = o.excluded {
            *self.excluded.entry(e.to_string()).or_default() += 1;
        }
        if o.transient {
            self.transient_timing += 1;
        }
        if o.nontrivial {
            self.nontrivial_total += 1;
            let new = self.nontrivial_fps.insert(fp);
            if new {
                // keep: first, and each new "largest so far" (bounded)
                if self.samples.is_empty() || (size > self.biggest && self.samples.len() < 6) {
                    self.biggest = self.biggest.max(size);
                    if let Some(f) = case_json.take() {
                        self.samples.push(f());
                    }
                }
            }
        }
    }

    pub fn merge(&mut self, other: Stats) {
        self.evaluations += other.evaluations;
        self.nontrivial_total += other.nontrivial_total;
        self.nontrivial_fps.extend(other.nontrivial_fps);
        for (k, v) in other.classes {
            *self.classes.entry(k).or_default() += v;
        }
        for (k, v) in other.excluded {
            *self.excluded.entry(k).or_default() += v;
        }
        for (k, v) in other.known_hits {
            *self.known_hits.entry(k).or_default() += v;
        }
        for (k, v) in other.known_samples {
            self.known_samples.entry(k).or_insert(v);
        }
        self.transient_timing += other.transient_timing;
        for s in other.samples {
            if self.samples.len() < 8 {
                self.samples.push(s);
            }
        }
        self.violations.extend(other.violations);
        self.notes.extend(other.notes);
        if self.fallback_sample.is_none() {
            self.fallback_sample = other.fallback_sample;
        }
        self.exhaustive = self.exhaustive && other.exhaustive;
    }
}

// ---------------------------------------------------------------------------------------
// known findings
// ---------------------------------------------------------------------------------------

#[derive(Debug, Clone, serde::Deserialize)]
pub struct KnownFinding {
    pub property: String,
    pub signature: String,
    pub status: String, // "known" | "fixed"
    pub what: String,
    #[serde(default)]
    pub commit: Option<String>,
}

pub fn load_known() -> Vec<KnownFinding> {
    let p = verif_dir().join("known_findings.json");
    match std::fs::read_to_string(&p) {
        Ok(s) => match serde_json::from_str::<Value>(&s) {
            Ok(v) => {
                let arr = v.get("findings").cloned().unwrap_or(Value::Array(vec![]));
                serde_json::from_value(arr).unwrap_or_else(|e| {
                    eprintln!("known_findings.json malformed: {e}");
                    std::process::exit(2)
                })
            }
            Err(e) => {
                eprintln!("known_findings.json malformed: {e}");
                std::process::exit(2)
            }
        },
        Err(_) => vec![],
    }
}

pub struct Known {
    list: Vec<KnownFinding>,
    property: String,
}

impl Known {
    pub fn load(property: &str) -> Known {
        Known {
            list: load_known(),
            property: property.into(),
        }
    }
    /// is this exact signature listed as a *known* (unrepaired) finding of this property?
    pub fn is_known(&self, sig: &str) -> Option<&KnownFinding> {
        self.list
            .iter()
            .find(|k| k.property == self.property && k.status == "known" && k.signature == sig)
    }
    pub fn any_known_prefix(&self, prefix: &str) -> bool {
        self.list.iter().any(|k| {
            k.property == self.property && k.status == "known" && k.signature.starts_with(prefix)
        })
    }
}

// ---------------------------------------------------------------------------------------
// proptest driver
// ---------------------------------------------------------------------------------------

pub struct RunCfg<'a> {
    pub property: &'a str,
    pub sub: &'a str,
    pub rule: &'a str,
    pub seed: u64,
    pub cases: u32,
    pub shards: u32,
    pub max_shrink_iters: u32,
}

fn panic_msg(e: Box<dyn std::any::Any + Send>) -> String {
    if let Some(s) = e.downcast_ref::<&'static str>() {
        (*s).to_string()
    } else if let Some(s) = e.downcast_ref::<String>() {
        s.clone()
    } else {
        "non-string panic".into()
    }
}

/// Run a generated search. `exec` executes one case and returns the oracle outcome; it
/// may be called again on shrunk candidates (those calls are not counted).
/// `size` gives a size measure of a case for sample selection.
pub fn run_prop<S, F>(cfg: &RunCfg<'_>, strategy: impl Fn() -> S + Sync, exec: F) -> Stats
where
    S: Strategy,
    S::Value: Debug + Serialize + Clone,
    F: Fn(&S::Value) -> Outcome + Sync,
{
    let known = Known::load(cfg.property);
    let shards = cfg.shards.max(1);
    let per = (cfg.cases + shards - 1) / shards;
    let total = Mutex::new(Stats::new(cfg.sub, cfg.rule));
    total.lock().unwrap().exhaustive = false;
    std::thread::scope(|sc| {
        for shard in 0..shards {
            let known = &known;
            let total = &total;
            let strategy = &strategy;
            let exec = &exec;
            let builder = std::thread::Builder::new()
                .name(format!("shard-{shard}"))
                .stack_size(16 << 20);
            builder
                .spawn_scoped(sc, move || {
                    let st = run_shard(cfg, shard, per, known, strategy(), exec);
                    total.lock().unwrap().merge(st);
                })
                .expect("spawn shard");
        }
    });
    let mut st = total.into_inner().unwrap();
    st.name = cfg.sub.into();
    st.rule = cfg.rule.into();
    st
}

fn run_shard<S, F>(
    cfg: &RunCfg<'_>,
    shard: u32,
    cases: u32,
    known: &Known,
    strategy: S,
    exec: &F,
) -> Stats
where
    S: Strategy,
    S::Value: Debug + Serialize + Clone,
    F: Fn(&S::Value) -> Outcome + Sync,
{
    let seed = derive_seed(cfg.seed, &format!("{}/{}", cfg.property, cfg.sub), shard);
    let config = Config {
        cases,
        failure_persistence: None,
        max_shrink_iters: cfg.max_shrink_iters,
        max_local_rejects: 1 << 20,
        max_global_rejects: 1 << 20,
        rng_seed: RngSeed::Fixed(0), // overridden below by explicit rng
        ..Config::default()
    };
    let rng = proptest::test_runner::TestRng::from_seed(RngAlgorithm::ChaCha, &seed);
    let mut runner = TestRunner::new_with_rng(config, rng);
    let stats = std::cell::RefCell::new(Stats::new(cfg.sub, cfg.rule));
    let failed = std::cell::Cell::new(false);
    let result = runner.run(&strategy, |case| {
        let o = match std::panic::catch_unwind(std::panic::AssertUnwindSafe(|| exec(&case))) {
            Ok(o) => o,
            Err(e) => Outcome::fail(
                format!("{}/harness-or-code-panic", cfg.property),
                format!("panic while executing case: {}", panic_msg(e)),
            ),
        };
        let counting = !failed.get();
        let mut verdict = Ok(());
        let mut o2 = o.clone();
        if let Some((sig, msg)) = &o.fail {
            if known.is_known(sig).is_some() {
                if counting {
                    let mut st = stats.borrow_mut();
                    *st.known_hits.entry(sig.clone()).or_default() += 1;
                    st.known_samples
                        .entry(sig.clone())
                        .or_insert_with(|| json!({"case": &case, "message": msg}));
                }
                o2.fail = None;
                o2.excluded = Some("matched-known-finding");
            } else {
                verdict = Err(TestCaseError::fail(format!("{sig}\u{1}{msg}")));
            }
        }
        if counting {
            let js = serde_json::to_string(&case).unwrap_or_default();
            stats.borrow_mut().record(
                || serde_json::to_value(&case).unwrap_or(Value::Null),
                hash64(&js),
                js.len(),
                &o2,
            );
        }
        if verdict.is_err() {
            failed.set(true);
        }
        verdict
    });
    let mut st = stats.into_inner();
    match result {
        Ok(()) => {}
        Err(TestError::Fail(reason, value)) => {
            let r = reason.message().to_string();
            let (sig, msg) = match r.split_once('\u{1}') {
                Some((a, b)) => (a.to_string(), b.to_string()),
                None => (format!("{}/unknown", cfg.property), r),
            };
            st.violations.push(Violation {
                sub: cfg.sub.into(),
                signature: sig,
                message: msg,
                case: serde_json::to_value(&value).unwrap_or(Value::Null),
                replay: None,
            });
        }
        Err(TestError::Abort(reason)) => {
            st.notes
                .push(format!("shard {shard} aborted: {}", reason.message()));
        }
    }
    st
}

/// Run an explicit list of cases (replay seeds / regression cases / exhaustive enumerations).
pub fn run_list<T, F>(cfg: &RunCfg<'_>, cases: impl IntoIterator<Item = T>, exec: F) -> Stats
where
    T: Debug + Serialize,
    F: Fn(&T) -> Outcome,
{
    let known = Known::load(cfg.property);
    let mut st = Stats::new(cfg.sub, cfg.rule);
    for case in cases {
        let o = match std::panic::catch_unwind(std::panic::AssertUnwindSafe(|| exec(&case))) {
            Ok(o) => o,
            Err(e) => Outcome::fail(
                format!("{}/harness-or-code-panic", cfg.property),
                format!("panic while executing case: {}", panic_msg(e)),
            ),
        };
        let mut o2 = o.clone();
        if let Some((sig, msg)) = &o.fail {
            if known.is_known(sig).is_some() {
                *st.known_hits.entry(sig.clone()).or_default() += 1;
                st.known_samples
                    .entry(sig.clone())
                    .or_insert_with(|| json!({"case": &case, "message": msg}));
                o2.fail = None;
                o2.excluded = Some("matched-known-finding");
            } else if st.violations.len() < 5 {
                st.violations.push(Violation {
                    sub: cfg.sub.into(),
                    signature: sig.clone(),
                    message: msg.clone(),
                    case: serde_json::to_value(&case).unwrap_or(Value::Null),
                    replay: None,
                });
            }
        }
        let js = serde_json::to_string(&case).unwrap_or_default();
        st.record(
            || serde_json::to_value(&case).unwrap_or(Value::Null),
            hash64(&js),
            js.len(),
            &o2,
        );
    }
    st
}

/// Generate one value from a strategy deterministically (for sampling outside a runner).
pub fn sample_one<S: Strategy>(s: &S, seed: u64, tag: &str) -> S::Value {
    let rng = proptest::test_runner::TestRng::from_seed(
        RngAlgorithm::ChaCha,
        &derive_seed(seed, tag, 0),
    );
    let mut runner = TestRunner::new_with_rng(Config::default(), rng);
    s.new_tree(&mut runner).expect("generate").current()
}

// ---------------------------------------------------------------------------------------
// evidence + verdict
// ---------------------------------------------------------------------------------------

pub struct Evidence {
    pub property: String,
    pub tier: Tier,
    pub seed: u64,
    pub level: &'static str,
    pub subs: Vec<Stats>,
    pub assumptions: Vec<String>,
    pub start: Instant,
    pub extra: BTreeMap<String, Value>,
    /// minimum fraction of non-trivial cases per sub below which the run is vacuous
    pub nt_floor: f64,
    pub inconclusive: Vec<String>,
}

impl Evidence {
    pub fn new(property: &str, args: &Args, level: &'static str) -> Self {
        Evidence {
            property: property.into(),
            tier: args.tier,
            seed: args.seed,
            level,
            subs: vec![],
            assumptions: vec![],
            start: Instant::now(),
            extra: BTreeMap::new(),
            nt_floor: 0.05,
            inconclusive: vec![],
        }
    }
    pub fn assume(&mut self, s: &str) {
        self.assumptions.push(s.into());
    }
    pub fn add(&mut self, st: Stats) {
        eprintln!(
            "[{}] sub={} evaluations={} nontrivial={} distinct_nontrivial={} known_hits={:?} excluded={:?} violations={}",
            self.property,
            st.name,
            st.evaluations,
            st.nontrivial_total,
            st.nontrivial_fps.len(),
            st.known_hits,
            st.excluded,
            st.violations.len()
        );
        self.subs.push(st);
    }
    pub fn has_violations(&self) -> bool {
        self.subs.iter().any(|s| !s.violations.is_empty())
    }
    pub fn inconclusive(&mut self, why: impl Into<String>) {
        self.inconclusive.push(why.into());
    }

    /// Writes the evidence file, replay files, prints VIOLATION / KNOWN-FINDING lines and
    /// returns the process exit code.
    pub fn finish(mut self) -> i32 {
        let dir = verif_dir();
        let known = Known::load(&self.property);
        let mut total_eval = 0u64;
        let mut fps: HashSet<(usize, u64)> = HashSet::new();
        let mut samples: Vec<Value> = vec![];
        let mut rules = vec![];
        let mut subs_json = vec![];
        let mut violations: Vec<Violation> = vec![];
        let mut known_hits: BTreeMap<String, u64> = BTreeMap::new();
        let mut exhaustive_all = !self.subs.is_empty();
        let mut vacuous: Vec<String> = vec![];
        let mut printed: BTreeSet<String> = BTreeSet::new();
        for (i, st) in self.subs.iter_mut().enumerate() {
            total_eval += st.evaluations;
            for f in &st.nontrivial_fps {
                fps.insert((i, *f));
            }
            for s in st.samples.iter().take(3) {
                samples.push(json!({"sub": st.name, "case": s}));
            }
            if st.samples.is_empty() {
                if let Some(f) = &st.fallback_sample {
                    samples.push(json!({"sub": st.name, "case": f, "trivial": true}));
                }
            }
            rules.push(format!("[{}] {}", st.name, st.rule));
            for (k, v) in &st.known_hits {
                *known_hits.entry(k.clone()).or_default() += v;
            }
            exhaustive_all &= st.exhaustive;
            if st.evaluations > 0
                && (st.nontrivial_fps.len() as f64) < self.nt_floor * (st.evaluations as f64).min(2000.0)
                && st.violations.is_empty()
            {
                vacuous.push(format!(
                    "sub {} produced only {} distinct non-trivial cases out of {}",
                    st.name,
                    st.nontrivial_fps.len(),
                    st.evaluations
                ));
            }
            for n in &st.notes {
                if n.contains("aborted") {
                    self.inconclusive.push(format!("sub {}: {}", st.name, n));
                }
            }
            violations.append(&mut st.violations);
            subs_json.push(json!({
                "sub": st.name,
                "evaluations": st.evaluations,
                "nontrivial": st.nontrivial_total,
                "distinct_nontrivial": st.nontrivial_fps.len(),
                "classes": st.classes,
                "excluded": st.excluded,
                "known_finding_hits": st.known_hits,
                "transient_timing": st.transient_timing,
                "exhaustive": st.exhaustive,
                "notes": st.notes,
            }));
        }
        // replay files
        let rdir = dir.join("replays").join(&self.property);
        for (n, v) in violations.iter_mut().enumerate() {
            let _ = std::fs::create_dir_all(&rdir);
            let name = format!(
                "{}-{}-seed{}-{}.json",
                v.sub,
                &format!("{:016x}", hash64(&v.signature))[..8],
                self.seed,
                n
            );
            let path = rdir.join(name);
            let body = json!({
                "property": self.property,
                "sub": v.sub,
                "signature": v.signature,
                "message": v.message,
                "seed": self.seed,
                "tier": self.tier.name(),
                "case": v.case,
            });
            let _ = std::fs::write(&path, serde_json::to_string_pretty(&body).unwrap());
            v.replay = Some(path.display().to_string());
        }
        // KNOWN-FINDING lines
        for (sig, n) in &known_hits {
            if let Some(k) = known.is_known(sig) {
                if printed.insert(sig.clone()) {
                    println!(
                        "KNOWN-FINDING: property={} {} [{}; {} generated cases hit it]",
                        self.property, k.what, sig, n
                    );
                }
            }
        }
        let known_samples: BTreeMap<String, Value> = self
            .subs
            .iter()
            .flat_map(|s| s.known_samples.clone())
            .collect();
        let mut coverage = json!({
            "evaluations": total_eval,
            "distinct_nontrivial": fps.len(),
            "rule": rules.join(" | "),
            "samples": samples,
            "subs": subs_json,
            "known_finding_hits": known_hits,
            "known_finding_samples": known_samples,
            "exhaustive": exhaustive_all,
            "violations_detail": violations,
            "inconclusive": self.inconclusive,
            "vacuous": vacuous,
        });
        for (k, v) in &self.extra {
            coverage[k] = v.clone();
        }
        let ev = json!({
            "property_id": self.property,
            "tier": self.tier.name(),
            "seed": (self.seed & (i64::MAX as u64)) as i64,
            "level": self.level,
            "coverage": coverage,
            "assumptions": self.assumptions,
            "wall_s": self.start.elapsed().as_secs_f64(),
            "violations": violations.len(),
        });
        let edir = evidence_dir();
        let _ = std::fs::create_dir_all(&edir);
        // an engine that contributes a part of a property's evidence (a second build unit run by
        // the `check` driver after the main engine) writes `<id>.<part>.json`; the driver merges
        // it into `<id>.json`
        let epath = match std::env::var("VERIF_EVIDENCE_PART") {
            Ok(part) if !part.is_empty() => edir.join(format!("{}.{}.json", self.property, part)),
            _ => edir.join(format!("{}.json", self.property)),
        };
        if let Err(e) = std::fs::write(&epath, serde_json::to_string_pretty(&ev).unwrap()) {
            eprintln!("cannot write evidence {}: {e}", epath.display());
            return 2;
        }
        if !violations.is_empty() {
            for v in &violations {
                eprintln!(
                    "[{}] violation sub={} signature={} :: {}",
                    self.property, v.sub, v.signature, v.message
                );
                println!(
                    "VIOLATION property={} replay={}",
                    self.property,
                    v.replay.clone().unwrap_or_default()
                );
            }
            return 1;
        }
        if !self.inconclusive.is_empty() {
            for w in &self.inconclusive {
                eprintln!("[{}] INCONCLUSIVE: {}", self.property, w);
            }
            return 2;
        }
        if !vacuous.is_empty() {
            for w in &vacuous {
                eprintln!("[{}] VACUOUS: {}", self.property, w);
            }
            return 2;
        }
        println!(
            "OK property={} tier={} evaluations={} distinct_nontrivial={} wall_s={:.1}",
            self.property,
            self.tier.name(),
            total_eval,
            fps.len(),
            self.start.elapsed().as_secs_f64()
        );
        0
    }
}

/// Load a replay file → (sub, case json).
pub fn load_replay(path: &std::path::Path) -> (String, String, Value) {
    let s = std::fs::read_to_string(path).unwrap_or_else(|e| {
        eprintln!("cannot read replay {}: {e}", path.display());
        std::process::exit(2)
    });
    let v: Value = serde_json::from_str(&s).unwrap_or_else(|e| {
        eprintln!("replay not json: {e}");
        std::process::exit(2)
    });
    (
        v["property"].as_str().unwrap_or("").to_string(),
        v["sub"].as_str().unwrap_or("").to_string(),
        v["case"].clone(),
    )
}

/// Standard replay verdict printing. Returns exit code.
pub fn replay_verdict(property: &str, path: &std::path::Path, o: &Outcome) -> i32 {
    match &o.fail {
        Some((sig, msg)) => {
            eprintln!("[{property}] replay fails: {sig} :: {msg}");
            println!("VIOLATION property={} replay={}", property, path.display());
            1
        }
        None => {
            println!("OK property={property} replay passes");
            0
        }
    }
}

// ---------------------------------------------------------------------------------------
// hang guard: turns "this call never returns" into a reported violation for in-process
// engines whose property includes termination (the case is known, so it is attributable).
// ---------------------------------------------------------------------------------------
pub mod hang {
    use super::*;
    use std::sync::atomic::{AtomicU64, Ordering};
    use std::sync::Arc;
    use std::time::Duration;

    struct Slot {
        since_ms: AtomicU64, // 0 = idle
        case: Mutex<(String, String, String)>, // (sub, signature, case json)
    }
    static SLOTS: Mutex<Vec<Arc<Slot>>> = Mutex::new(Vec::new());
    static START: Mutex<Option<Instant>> = Mutex::new(None);

    fn now_ms() -> u64 {
        let mut g = START.lock().unwrap();
        let s = g.get_or_insert_with(Instant::now);
        s.elapsed().as_millis() as u64 + 1
    }

    thread_local! {
        static MY: Arc<Slot> = {
            let s = Arc::new(Slot { since_ms: AtomicU64::new(0), case: Mutex::new(Default::default()) });
            SLOTS.lock().unwrap().push(s.clone());
            s
        };
    }

    /// Run `f` under the guard. If it does not return within the monitor's limit the
    /// process reports a violation with this case and exits 1.
    pub fn guard<T>(sub: &str, sig: &str, case_json: impl FnOnce() -> String, f: impl FnOnce() -> T) -> T {
        MY.with(|s| {
            *s.case.lock().unwrap() = (sub.to_string(), sig.to_string(), case_json());
            s.since_ms.store(now_ms(), Ordering::SeqCst);
        });
        let r = f();
        MY.with(|s| s.since_ms.store(0, Ordering::SeqCst));
        r
    }

    /// Like `start_monitor`, but a non-returning call is reported as *inconclusive*
    /// (exit 2): for engines whose property does not include termination.
    pub fn start_monitor_inconclusive(property: &str, limit: Duration) {
        let property = property.to_string();
        let _ = now_ms();
        std::thread::spawn(move || loop {
            std::thread::sleep(Duration::from_millis(200));
            let now = now_ms();
            let slots: Vec<Arc<Slot>> = SLOTS.lock().unwrap().clone();
            for s in slots {
                let since = s.since_ms.load(Ordering::SeqCst);
                if since != 0 && now.saturating_sub(since) > limit.as_millis() as u64 {
                    let (sub, sig, case) = s.case.lock().unwrap().clone();
                    eprintln!("[{property}] INCONCLUSIVE: a call did not return within {limit:?} in sub {sub} ({sig}); termination is another property's business. case: {case}");
                    std::process::exit(2);
                }
            }
        });
    }

    pub fn start_monitor(property: &str, tier: Tier, seed: u64, limit: Duration) {
        let property = property.to_string();
        let _ = now_ms();
        std::thread::spawn(move || loop {
            std::thread::sleep(Duration::from_millis(200));
            let now = now_ms();
            let slots: Vec<Arc<Slot>> = SLOTS.lock().unwrap().clone();
            for s in slots {
                let since = s.since_ms.load(Ordering::SeqCst);
                if since != 0 && now.saturating_sub(since) > limit.as_millis() as u64 {
                    let (sub, sig, case) = s.case.lock().unwrap().clone();
                    let known = Known::load(&property);
                    if known.is_known(&sig).is_some() {
                        // a listed hang cannot be continued past in-process; report and stop
                        println!("KNOWN-FINDING: property={property} {sig} (call did not return)");
                        std::process::exit(0);
                    }
                    let dir = verif_dir();
                    let rdir = dir.join("replays").join(&property);
                    let _ = std::fs::create_dir_all(&rdir);
                    let path = rdir.join(format!("{sub}-hang-seed{seed}.json"));
                    let casev: Value = serde_json::from_str(&case).unwrap_or(Value::String(case));
                    let body = json!({"property": property, "sub": sub, "signature": sig,
                        "message": format!("call did not return within {limit:?}"), "seed": seed, "case": casev});
                    let _ = std::fs::write(&path, serde_json::to_string_pretty(&body).unwrap());
                    let ev = json!({"property_id": property, "tier": tier.name(), "seed": (seed & (i64::MAX as u64)) as i64,
                        "level": "exploration", "coverage": {"evaluations": 1, "distinct_nontrivial": 2,
                        "rule": "run cut short by a non-returning call", "samples": [body]}, "wall_s": 0.0, "violations": 1});
                    let _ = std::fs::create_dir_all(evidence_dir());
                    let _ = std::fs::write(evidence_dir().join(format!("{property}.json")), ev.to_string());
                    println!("VIOLATION property={} replay={}", property, path.display());
                    std::process::exit(1);
                }
            }
        });
    }
}

/// Regression seeds: shrunk failing cases of defects that were repaired (or hand-written
/// minimal cases), kept under /verif/regress/<property>/*.json and executed first in
/// every run through the engine's replay interpreter (bypassing the generators).
pub fn run_regress(property: &str, exec: impl Fn(&str, Value) -> Outcome) -> Stats {
    run_regress_in(property, property, exec)
}

/// like `run_regress`, seeds taken from /verif/regress/<dir_name>/
pub fn run_regress_in(property: &str, dir_name: &str, exec: impl Fn(&str, Value) -> Outcome) -> Stats {
    let dir = verif_dir().join("regress").join(dir_name);
    let mut files: Vec<PathBuf> = std::fs::read_dir(&dir)
        .map(|d| d.filter_map(|e| e.ok().map(|e| e.path())).filter(|p| p.extension().is_some_and(|x| x == "json")).collect())
        .unwrap_or_default();
    files.sort();
    let cases: Vec<(String, String, Value)> = files
        .iter()
        .map(|p| {
            let (_, sub, case) = load_replay(p);
            (p.file_name().unwrap().to_string_lossy().into_owned(), sub, case)
        })
        .collect();
    let cfg = RunCfg {
        property,
        sub: "regress",
        rule: "saved shrunk cases of repaired defects, replayed without the generators; each counts as non-trivial",
        seed: 0,
        cases: 0,
        shards: 1,
        max_shrink_iters: 0,
    };
    run_list(&cfg, cases, |(_, sub, case)| {
        let mut o = exec(sub, case.clone());
        o.nontrivial = true;
        o
    })
}

// ---------------------------------------------------------------------------------------
// in-flight breadcrumbs: attribute a process abort (panic inside `extern "C"`, SIGSEGV...)
// to the case that was executing. Each shard thread keeps one small file up to date; the
// `check` driver replays the breadcrumbs of a process that died abnormally.
// ---------------------------------------------------------------------------------------
pub mod inflight {
    use super::*;
    use std::cell::RefCell;
    use std::io::{Seek, SeekFrom, Write};

    thread_local! {
        static FILE: RefCell<Option<(std::fs::File, PathBuf)>> = const { RefCell::new(None) };
    }

    /// record the case about to be executed by this thread
    pub fn mark(property: &str, sub: &str, case_json: &str) {
        FILE.with(|f| {
            let mut f = f.borrow_mut();
            if f.is_none() {
                let dir = verif_dir().join("replays").join(property);
                let _ = std::fs::create_dir_all(&dir);
                let tid = format!("{:?}", std::thread::current().id()).replace(|c: char| !c.is_ascii_digit(), "");
                let p = dir.join(format!("inflight-{}-{}.json", std::process::id(), tid));
                if let Ok(file) = std::fs::File::create(&p) {
                    *f = Some((file, p));
                }
            }
            if let Some((file, _)) = f.as_mut() {
                let body = format!(
                    "{{\"property\":\"{property}\",\"sub\":\"{sub}\",\"signature\":\"{property}/process-aborted-while-executing-this-case\",\"message\":\"the process died (abort/signal) while this case was executing\",\"case\":{case_json}}}"
                );
                let _ = file.seek(SeekFrom::Start(0));
                let _ = file.write_all(body.as_bytes());
                let _ = file.set_len(body.len() as u64);
            }
        });
    }

    /// the case finished normally: nothing in flight on this thread
    pub fn clear() {
        FILE.with(|f| {
            if let Some((file, _)) = f.borrow_mut().as_mut() {
                let _ = file.set_len(0);
            }
        });
    }

    /// remove this process's breadcrumb files (normal exit)
    pub fn cleanup(property: &str) {
        let dir = verif_dir().join("replays").join(property);
        let prefix = format!("inflight-{}-", std::process::id());
        if let Ok(rd) = std::fs::read_dir(&dir) {
            for e in rd.flatten() {
                if e.file_name().to_string_lossy().starts_with(&prefix) {
                    let _ = std::fs::remove_file(e.path());
                }
            }
        }
    }
}

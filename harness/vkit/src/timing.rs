//! Timing policy (DESIGN.md §2.5).

use std::time::{Duration, Instant};

/// lower-bound tolerance: clock granularity + 1 %
pub fn not_early(elapsed: Duration, requested: Duration) -> bool {
    let tol = Duration::from_micros(200) + requested / 100;
    elapsed + tol >= requested
}

/// upper bound: requested + max(min_slack, requested/2)
pub fn upper_bound(requested: Duration, min_slack: Duration) -> Duration {
    requested + min_slack.max(requested / 2)
}

/// Is the host keeping up?  50 × sleep(1 ms) must finish within 3× nominal.
pub fn host_calm() -> bool {
    let t = Instant::now();
    for _ in 0..30 {
        std::thread::sleep(Duration::from_millis(1));
    }
    t.elapsed() < Duration::from_millis(120)
}

pub fn now_ns() -> u64 {
    std::time::SystemTime::now()
        .duration_since(std::time::UNIX_EPOCH)
        .map(|d| d.as_nanos() as u64)
        .unwrap_or(0)
}

/// Confirm-by-repeat (DESIGN.md §2.5): a deviation whose signature is timing-dependent is a
/// violation only if the same case deviates with the same signature in every one of `n`
/// immediate re-executions (each in a fresh child, by the caller's `rerun`); otherwise it is
/// recorded as transient and the case passes.
pub fn confirm_repeat(
    mut o: crate::Outcome,
    is_timing: impl Fn(&str) -> bool,
    rerun: impl Fn() -> crate::Outcome,
    n: usize,
) -> crate::Outcome {
    let Some((sig, msg0)) = o.fail.clone() else {
        return o;
    };
    if !is_timing(&sig) {
        return o;
    }
    for _ in 0..n {
        let r = rerun();
        match &r.fail {
            Some((s2, _)) if *s2 == sig => {}
            _ => {
                eprintln!("[timing] transient deviation (did not repeat, not a violation): {sig} :: {msg0}");
                o.fail = None;
                o.transient = true;
                return o;
            }
        }
    }
    o
}

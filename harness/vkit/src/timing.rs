//! Timing policy (DESIGN.md §2.5).

use std::time::{Duration, Instant};

/// lower-bound tolerance: clock granularity + 1 %
pub fn not_early(elapsed: Duration, requested: Duration) -> bool {
    let tol = Duration::from_micros(200) + requested / 100;
    elapsed + tol >= requested
}

/// upper bound: requested + max(min_slack, requested/2)
pub fn upper_bound(requested: Duration, min_slack: Duration) -> Duration {
    requested + min_slack.max(requested / 2)
}

/// Is the host keeping up?  50 × sleep(1 ms) must finish within 3× nominal.
pub fn host_calm() -> bool {
    let t = Instant::now();
    for _ in 0..30 {
        std::thread::sleep(Duration::from_millis(1));
    }
    t.elapsed() < Duration::from_millis(120)
}

fn thread_cpu_ns() -> u64 {
    let mut ts = libc::timespec { tv_sec: 0, tv_nsec: 0 };
    unsafe {
        let _ = libc::clock_gettime(libc::CLOCK_THREAD_CPUTIME_ID, &mut ts);
    }
    ts.tv_sec as u64 * 1_000_000_000 + ts.tv_nsec as u64
}

/// Do CPU-bound threads get a core right now?  4 threads each burn 12 ms of *their own* CPU
/// time; on a host with spare cores that takes 12-14 ms of wall time, on an oversubscribed one
/// more. `false` if any of them needed more than 1.5x (a thread that gets two thirds of a core
/// or less: the ratio bounds of C15 -- a computing task keeps a quarter of the wall time -- are
/// already off at a 50 % share).
pub fn cpu_available() -> bool {
    let hs: Vec<_> = (0..4)
        .map(|_| {
            std::thread::spawn(|| {
                let t = Instant::now();
                let c0 = thread_cpu_ns();
                let mut x = 0u64;
                while thread_cpu_ns() - c0 < 12_000_000 {
                    for i in 0..2_000u64 {
                        x = x.wrapping_mul(6364136223846793005).wrapping_add(i);
                    }
                    std::hint::black_box(x);
                }
                t.elapsed()
            })
        })
        .collect();
    hs.into_iter().all(|h| h.join().map(|d| d < Duration::from_millis(18)).unwrap_or(false))
}

/// wake-ups are prompt and CPU-bound threads are not starved
pub fn host_responsive() -> bool {
    host_calm() && cpu_available()
}

/// waits (up to `limit`) until the host is responsive twice in a row
pub fn wait_until_responsive(limit: Duration) -> bool {
    let t = Instant::now();
    let mut good = 0;
    while t.elapsed() < limit {
        if host_responsive() {
            good += 1;
            if good >= 2 {
                return true;
            }
        } else {
            good = 0;
            std::thread::sleep(Duration::from_millis(500));
        }
    }
    false
}

pub fn now_ns() -> u64 {
    std::time::SystemTime::now()
        .duration_since(std::time::UNIX_EPOCH)
        .map(|d| d.as_nanos() as u64)
        .unwrap_or(0)
}

/// what is left of the time this process may spend waiting for a responsive host
static WAIT_BUDGET_MS: std::sync::atomic::AtomicU64 = std::sync::atomic::AtomicU64::new(90_000);

/// Confirm-by-repeat (DESIGN.md §2.5): a deviation whose signature is timing-dependent is a
/// violation only if the same case deviates with the same signature in every one of `n`
/// immediate re-executions (each in a fresh child, by the caller's `rerun`) *and* the host is
/// responsive afterwards (wake-ups prompt, CPU-bound threads not starved); otherwise it is
/// recorded as transient and the case passes.
pub fn confirm_repeat(
    mut o: crate::Outcome,
    is_timing: impl Fn(&str) -> bool,
    rerun: impl Fn() -> crate::Outcome,
    n: usize,
) -> crate::Outcome {
    let Some((sig, msg0)) = o.fail.clone() else {
        return o;
    };
    if !is_timing(&sig) {
        return o;
    }
    // A deviation that repeats while the host itself is oversubscribed (other checks, builds)
    // says nothing about the code: wait for a responsive host and confirm again, up to 3 times;
    // if the host never becomes responsive the case stays undecided (counted as transient).
    for round in 0..3 {
        for _ in 0..n {
            let r = rerun();
            match &r.fail {
                Some((s2, _)) if *s2 == sig => {}
                _ => {
                    eprintln!("[timing] transient deviation (did not repeat, not a violation): {sig} :: {msg0}");
                    o.fail = None;
                    o.transient = true;
                    return o;
                }
            }
        }
        if host_responsive() {
            return o;
        }
        // waiting is bounded per process (all shards together): 90 s in all, 20 s at a time;
        // once that is spent, deviations on an oversubscribed host are left undecided at once
        let left = WAIT_BUDGET_MS.load(std::sync::atomic::Ordering::SeqCst);
        if left == 0 {
            break;
        }
        eprintln!("[timing] deviation repeated on an oversubscribed host (round {round}); waiting for the host before confirming again: {sig}");
        let t = Instant::now();
        let _ = wait_until_responsive(Duration::from_millis(left.min(20_000)));
        let spent = t.elapsed().as_millis() as u64;
        let _ = WAIT_BUDGET_MS.fetch_update(std::sync::atomic::Ordering::SeqCst, std::sync::atomic::Ordering::SeqCst, |b| Some(b.saturating_sub(spent.max(1))));
    }
    eprintln!("[timing] undecided: the host stayed oversubscribed while this deviation was being confirmed (not a violation): {sig} :: {msg0}");
    o.fail = None;
    o.transient = true;
    o
}

//! Timing policy (DESIGN.md §2.5).

use std::time::{Duration, Instant};

/// lower-bound tolerance: clock granularity + 1 %
pub fn not_early(elapsed: Duration, requested: Duration) -> bool {
    let tol = Duration::from_micros(200) + requested / 100;
    elapsed + tol >= requested
}

/// upper bound: requested + max(min_slack, requested/2)
pub fn upper_bound(requested: Duration, min_slack: Duration) -> Duration {
    requested + min_slack.max(requested / 2)
}

/// Is the host keeping up?  50 × sleep(1 ms) must finish within 3× nominal.
pub fn host_calm() -> bool {
    let t = Instant::now();
    for _ in 0..30 {
        std::thread::sleep(Duration::from_millis(1));
    }
    t.elapsed() < Duration::from_millis(120)
}

pub fn now_ns() -> u64 {
    std::time::SystemTime::now()
        .duration_since(std::time::UNIX_EPOCH)
        .map(|d| d.as_nanos() as u64)
        .unwrap_or(0)
}

#![no_main]
libfuzzer_sys::fuzz_target!(|data: &[u8]| vcore::fuzz::fuzz_one("c05o", data));

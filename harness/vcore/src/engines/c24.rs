//! C24 — a memory fault in a coroutine only fails that coroutine.
//!
//! Sub-run `coroutines` (fresh child per case): 1..5 coroutines on one thread, each healthy
//! (yields its own values, returns its own value) or faulty after `s` suspends and `depth`
//! frames with a fault of a generated kind; the driver resumes them in a generated order and
//! finally runs one more fresh healthy coroutine.
//! Oracle: the faulty resume returns `Ok(Error(m))`; `m == "stack overflow"` exactly when the
//! stack pointer the harness sampled immediately before the faulting access (for recursion:
//! at the deepest level reached) lies outside the segments `stack_infos()` reported at that
//! moment, otherwise `m == "invalid memory reference"`; later resumes of the dead coroutine
//! report the same error and run no code; every other coroutine yields and returns its own
//! values; afterwards the thread is outside any coroutine (no current coroutine/suspender).
//!
//! Sub-run `tasks`: the same fault kinds inside a task on an event loop, with healthy tasks
//! submitted before and after; every healthy task must complete with its own value.

use corosensei::stack::DefaultStack;
use open_coroutine_core::common::constants::CoroutineState;
use open_coroutine_core::config::Config;
use open_coroutine_core::coroutine::suspender::Suspender;
use open_coroutine_core::coroutine::{Coroutine, StackInfo};
use open_coroutine_core::net::EventLoops;
use proptest::prelude::*;
use serde::{Deserialize, Serialize};
use serde_json::json;
use std::hint::black_box;
use std::sync::atomic::{AtomicUsize, Ordering};
use std::time::Duration;
use vkit::child::{self, ChildSpec, End};
use vkit::{Args, Evidence, Outcome, RunCfg};

type Co<'a> = Coroutine<'a, (), u64, u64>;

#[derive(Debug, Clone, Copy, Serialize, Deserialize, PartialEq)]
pub enum Fault {
    NullRead,
    NullWrite,
    /// access a PROT_NONE page the harness mapped
    NoAccessRead,
    NoAccessWrite,
    /// unbounded recursion with 1 KiB frames (hits the guard page of the current segment)
    Recursion,
    /// null write while running inside a segment grown with maybe_grow_with
    InGrownSegment,
    /// unbounded recursion inside a grown segment
    RecursionInGrownSegment,
    /// null write while running on a stack the coroutine does not know about
    /// (corosensei::on_stack with a harness-owned stack)
    OnForeignStack,
}

#[derive(Debug, Clone, Copy, Serialize, Deserialize)]
pub struct CoSpec {
    /// number of suspends before the end (return or fault)
    pub suspends: u8,
    /// None = healthy
    pub fault: Option<Fault>,
    /// frames of 1 KiB below the body before the faulting access
    pub depth: u8,
}

#[derive(Debug, Clone, Serialize, Deserialize)]
pub struct Case {
    pub cos: Vec<CoSpec>,
    /// resume order (indices, monotone-mapped onto the not-yet-finished coroutines)
    pub order: Vec<u16>,
}

fn fault_strategy() -> impl Strategy<Value = Fault> {
    prop_oneof![
        Just(Fault::NullRead),
        Just(Fault::NullWrite),
        Just(Fault::NoAccessRead),
        Just(Fault::NoAccessWrite),
        Just(Fault::Recursion),
        Just(Fault::InGrownSegment),
        Just(Fault::RecursionInGrownSegment),
        Just(Fault::OnForeignStack),
    ]
}

pub fn strategy() -> impl Strategy<Value = Case> {
    (
        proptest::collection::vec((0u8..4, proptest::option::weighted(0.45, fault_strategy()), 0u8..40).prop_map(|(suspends, fault, depth)| CoSpec { suspends, fault, depth }), 1..6),
        proptest::collection::vec(any::<u16>(), 0..24),
    )
        .prop_map(|(cos, order)| Case { cos, order })
}

static LAST_SP: AtomicUsize = AtomicUsize::new(0);
static NOACCESS: AtomicUsize = AtomicUsize::new(0);

#[inline(never)]
fn sp() -> usize {
    let x = 0u8;
    black_box(&x) as *const u8 as usize
}

#[inline(never)]
#[allow(unconditional_recursion)]
fn recurse_forever(n: u64) -> u64 {
    let mut b = [0u8; 1024];
    let p = black_box(&mut b);
    p[0] = n as u8;
    LAST_SP.store(sp(), Ordering::Relaxed);
    let r = recurse_forever(n + 1);
    r.wrapping_add(u64::from(p[0]))
}

fn snapshot() -> Vec<StackInfo> {
    Co::current().map(|c| c.stack_infos().into_iter().collect()).unwrap_or_default()
}

thread_local! {
    static SNAP: std::cell::RefCell<Vec<StackInfo>> = const { std::cell::RefCell::new(Vec::new()) };
}

fn do_fault(f: Fault) -> u64 {
    let bad = NOACCESS.load(Ordering::Relaxed);
    let access = |f: Fault| -> u64 {
        SNAP.with(|s| *s.borrow_mut() = snapshot());
        LAST_SP.store(sp(), Ordering::Relaxed);
        unsafe {
            match f {
                Fault::NullRead => u64::from(std::ptr::read_volatile(8 as *const u8)),
                Fault::NullWrite | Fault::InGrownSegment | Fault::OnForeignStack => {
                    std::ptr::write_volatile(8 as *mut u8, 1);
                    0
                }
                Fault::NoAccessRead => u64::from(std::ptr::read_volatile(bad as *const u8)),
                Fault::NoAccessWrite => {
                    std::ptr::write_volatile(bad as *mut u8, 1);
                    0
                }
                Fault::Recursion | Fault::RecursionInGrownSegment => recurse_forever(0),
            }
        }
    };
    match f {
        Fault::InGrownSegment | Fault::RecursionInGrownSegment => {
            // a red zone nobody can satisfy forces a fresh, registered segment
            Co::maybe_grow_with(usize::MAX / 4, 128 * 1024, || access(f)).expect("allocate")
        }
        Fault::OnForeignStack => {
            let stack = DefaultStack::new(64 * 1024).expect("allocate");
            corosensei::on_stack(stack, || access(f))
        }
        _ => access(f),
    }
}

#[inline(never)]
fn descend(depth: u8, f: Fault) -> u64 {
    let mut b = [0u8; 1024];
    let p = black_box(&mut b);
    p[0] = depth;
    if depth == 0 {
        do_fault(f)
    } else {
        descend(depth - 1, f).wrapping_add(u64::from(p[0]))
    }
}

fn body(i: usize, spec: CoSpec, s: &Suspender<(), u64>) -> u64 {
    for j in 0..spec.suspends {
        s.suspend_with(i as u64 * 100 + u64::from(j));
    }
    match spec.fault {
        None => i as u64 * 1000 + 7,
        Some(f) => descend(spec.depth, f),
    }
}

fn in_bounds(infos: &[StackInfo], p: usize) -> bool {
    infos.iter().any(|i| i.stack_bottom <= p && p < i.stack_top)
}

pub fn child_main() -> i32 {
    let case: Case = serde_json::from_value(child::read_stdin_json()).expect("case");
    unsafe {
        let p = libc::mmap(std::ptr::null_mut(), 4096, libc::PROT_NONE, libc::MAP_PRIVATE | libc::MAP_ANONYMOUS, -1, 0);
        NOACCESS.store(p as usize + 64, Ordering::Relaxed);
    }
    let n = case.cos.len();
    let mut cos: Vec<Co<'_>> = vec![];
    for (i, spec) in case.cos.iter().copied().enumerate() {
        cos.push(Coroutine::new(Some(format!("c24-{i}")), move |s: &Suspender<(), u64>, ()| body(i, spec, s), None, None).expect("create"));
    }
    let mut yields = vec![0u8; n];
    let mut done: Vec<Option<String>> = vec![None; n];
    let mut step = 0usize;
    let mut order = case.order.clone().into_iter();
    let mut problems: Vec<serde_json::Value> = vec![];
    loop {
        let live: Vec<usize> = (0..n).filter(|i| done[*i].is_none()).collect();
        if live.is_empty() {
            break;
        }
        let i = live[vkit::pick(order.next().unwrap_or(0), live.len())];
        let spec = case.cos[i];
        child::emit(json!({"ev":"start","k":step,"co":i}));
        let r = cos[i].resume();
        let rs = format!("{r:?}");
        match r {
            Ok(CoroutineState::Suspend(v, 0)) => {
                let want = i as u64 * 100 + u64::from(yields[i]);
                if yields[i] >= spec.suspends || v != want {
                    problems.push(json!({"kind":"healthy-progress-disturbed","msg":format!("coroutine {i} yielded {v} at its suspend #{} (expected {want}, {} suspends in total)", yields[i], spec.suspends)}));
                }
                yields[i] += 1;
            }
            Ok(CoroutineState::Complete(v)) => {
                if spec.fault.is_some() || v != i as u64 * 1000 + 7 || yields[i] != spec.suspends {
                    problems.push(json!({"kind": if spec.fault.is_some() {"faulty-coroutine-completed"} else {"healthy-progress-disturbed"},"msg":format!("coroutine {i} completed with {v} after {} suspends (spec {spec:?})", yields[i])}));
                }
                done[i] = Some(rs.clone());
            }
            Ok(CoroutineState::Error(m)) => {
                match spec.fault {
                    None => problems.push(json!({"kind":"healthy-coroutine-failed","msg":format!("healthy coroutine {i} ended with Error({m})")})),
                    Some(f) => {
                        let snap = SNAP.with(|s| s.borrow().clone());
                        let p = LAST_SP.load(Ordering::Relaxed);
                        let want = if in_bounds(&snap, p) { "invalid memory reference" } else { "stack overflow" };
                        if m != want {
                            problems.push(json!({"kind": if want == "stack overflow" {"fault-outside-the-segments-not-reported-as-stack-overflow"} else {"fault-inside-the-segments-reported-as-stack-overflow"},
                                "msg":format!("coroutine {i} fault {f:?}: message {m:?}, but the stack pointer {p:#x} sampled before the access is {} the reported segments {snap:?}", if want == "stack overflow" {"outside"} else {"inside"})}));
                        }
                        if yields[i] != spec.suspends {
                            problems.push(json!({"kind":"healthy-progress-disturbed","msg":format!("faulty coroutine {i} failed after {} suspends instead of {}", yields[i], spec.suspends)}));
                        }
                        // a dead coroutine stays dead and runs nothing
                        let again = cos[i].resume();
                        if !matches!(again, Ok(CoroutineState::Error(m2)) if m2 == m) {
                            problems.push(json!({"kind":"dead-coroutine-resumed","msg":format!("resuming the failed coroutine {i} again gave {again:?}")}));
                        }
                    }
                }
                done[i] = Some(rs.clone());
            }
            other => {
                problems.push(json!({"kind":"unexpected-resume-result","msg":format!("coroutine {i}: {other:?}")}));
                done[i] = Some(rs.clone());
            }
        }
        child::emit(json!({"ev":"done","k":step,"co":i,"r":rs}));
        step += 1;
        if step > 400 {
            break;
        }
    }
    // the thread continues: one more fresh coroutine, and no coroutine context is left behind
    child::emit(json!({"ev":"start","k":step,"co":"fresh"}));
    let mut fresh: Co<'_> = Coroutine::new(
        Some("c24-fresh".into()),
        |s: &Suspender<(), u64>, ()| {
            s.suspend_with(41);
            42
        },
        None,
        None,
    )
    .expect("create");
    let a = fresh.resume();
    let b = fresh.resume();
    if !matches!(a, Ok(CoroutineState::Suspend(41, 0))) || !matches!(b, Ok(CoroutineState::Complete(42))) {
        problems.push(json!({"kind":"later-coroutine-disturbed","msg":format!("a fresh coroutine run afterwards gave {a:?} then {b:?}")}));
    }
    child::emit(json!({"ev":"done","k":step,"co":"fresh"}));
    let stale_co = Co::current().is_some();
    let stale_sus = Suspender::<(), u64>::current().is_some();
    if stale_co || stale_sus {
        problems.push(json!({"kind":"thread-left-inside-a-coroutine-context","msg":format!("after all coroutines ended the thread still reports a current coroutine: {stale_co}, a current suspender: {stale_sus}")}));
    }
    child::emit(json!({"ev":"result","problems":problems}));
    0
}

pub fn exec(c: &Case) -> Outcome {
    let js = serde_json::to_string(c).unwrap();
    let r = child::run_child(&ChildSpec { args: vec!["C24child".into()], stdin: &js, timeout: Duration::from_secs(20), env: vec![] });
    let mut o = Outcome::pass();
    let faulty = c.cos.iter().filter(|s| s.fault.is_some()).count();
    let after_suspend_with_sibling = c.cos.iter().any(|s| s.fault.is_some() && s.suspends >= 1) && c.cos.len() > faulty;
    o.nontrivial = after_suspend_with_sibling;
    o = o
        .class_if(faulty >= 1, "has-faulty-coroutine")
        .class_if(faulty >= 2, "2+faulty-coroutines")
        .class_if(c.cos.iter().any(|s| matches!(s.fault, Some(Fault::OnForeignStack))), "fault-on-foreign-stack")
        .class_if(c.cos.iter().any(|s| matches!(s.fault, Some(Fault::Recursion | Fault::RecursionInGrownSegment))), "recursion-overflow")
        .class_if(c.cos.iter().any(|s| matches!(s.fault, Some(Fault::InGrownSegment | Fault::RecursionInGrownSegment))), "fault-in-grown-segment");
    let open = r.open_op();
    match &r.end {
        End::Exit(0) => {}
        End::Signal(sig) => {
            match open {
                Some(op) => {
                    let who = &op["co"];
                    let kind = who.as_u64().and_then(|i| c.cos.get(i as usize)).map(|s| format!("{:?}", s.fault)).unwrap_or_else(|| "fresh".into());
                    o.set_fail(
                        format!("C24/coroutines/process-killed-by-signal-{sig}"),
                        format!("the process died (signal {sig}) while resuming coroutine {who} ({kind}); {}", r.stderr_tail.lines().rev().take(2).collect::<Vec<_>>().join(" | ")),
                    );
                }
                None => o.excluded = Some("child-died-outside-any-resume"),
            }
            return o;
        }
        End::Deadline { .. } => {
            match open {
                Some(op) => o.set_fail("C24/coroutines/resume-did-not-return", format!("resume of coroutine {} did not return within 20 s", op["co"])),
                None => o.excluded = Some("child-hung-outside-any-resume"),
            }
            return o;
        }
        End::Exit(_) => {
            o.excluded = Some("child-exited-nonzero");
            return o;
        }
    }
    if let Some(p) = r.result().and_then(|v| v["problems"].as_array().and_then(|a| a.first().cloned())) {
        o.set_fail(format!("C24/coroutines/{}", p["kind"].as_str().unwrap_or("problem")), p["msg"].as_str().unwrap_or("").to_string());
    }
    o
}

// ----------------------------------------------------------------------------------------
// tasks on an event loop
// ----------------------------------------------------------------------------------------

#[derive(Debug, Clone, Serialize, Deserialize)]
pub struct TaskCase {
    pub loops: u8,
    /// healthy tasks before the faulty one
    pub before: u8,
    pub fault: Fault,
    pub depth: u8,
    /// the faulty task first sleeps (suspends) this many times for 1 ms
    pub suspends: u8,
    /// healthy tasks after the faulty one has ended
    pub after: u8,
}

pub fn task_strategy() -> impl Strategy<Value = TaskCase> {
    (1u8..=2, 0u8..4, fault_strategy(), 0u8..30, 0u8..3, 1u8..5).prop_map(|(loops, before, fault, depth, suspends, after)| TaskCase { loops, before, fault, depth, suspends, after })
}

pub fn task_child_main() -> i32 {
    let case: TaskCase = serde_json::from_value(child::read_stdin_json()).expect("case");
    unsafe {
        let p = libc::mmap(std::ptr::null_mut(), 4096, libc::PROT_NONE, libc::MAP_PRIVATE | libc::MAP_ANONYMOUS, -1, 0);
        NOACCESS.store(p as usize + 64, Ordering::Relaxed);
    }
    let mut cfg = Config::single();
    cfg.set_hook(false);
    cfg.set_event_loop_size(case.loops.clamp(1, 2) as usize);
    EventLoops::init(&cfg);
    let mut problems: Vec<serde_json::Value> = vec![];
    // healthy tasks report through a side effect (completion is observed in the body, not
    // through join: with two loops join has a separate, listed problem -- see C02)
    let slots: std::sync::Arc<Vec<AtomicUsize>> = std::sync::Arc::new((0..256).map(|_| AtomicUsize::new(0)).collect());
    let healthy = |tag: usize| {
        let slots = slots.clone();
        EventLoops::submit_task(
            Some(format!("c24-healthy-{tag}")),
            move |_| {
                if let Some(s) = open_coroutine_core::scheduler::SchedulableSuspender::current() {
                    s.delay(Duration::from_millis(1));
                }
                slots[tag].fetch_add(tag * 10 + 3, Ordering::SeqCst);
                Some(tag * 10 + 3)
            },
            None,
            None,
        )
    };
    let wait_for = |tag: usize| -> usize {
        let t = std::time::Instant::now();
        while slots[tag].load(Ordering::SeqCst) == 0 && t.elapsed() < Duration::from_secs(5) {
            std::thread::sleep(Duration::from_millis(1));
        }
        slots[tag].load(Ordering::SeqCst)
    };
    child::emit(json!({"ev":"start","k":0,"what":"before"}));
    let hb: Vec<_> = (0..usize::from(case.before)).map(healthy).collect();
    let started = std::sync::Arc::new(AtomicUsize::new(0));
    let st2 = started.clone();
    let (fault, depth, suspends) = (case.fault, case.depth, case.suspends);
    let faulty = EventLoops::submit_task(
        Some("c24-faulty".into()),
        move |_| {
            for _ in 0..suspends {
                if let Some(s) = open_coroutine_core::scheduler::SchedulableSuspender::current() {
                    s.delay(Duration::from_millis(1));
                }
            }
            st2.store(1, Ordering::SeqCst);
            Some(descend(depth, fault) as usize)
        },
        None,
        None,
    );
    for i in 0..hb.len() {
        let v = wait_for(i);
        if v != i * 10 + 3 {
            problems.push(json!({"kind":"healthy-task-before-disturbed","msg":format!("healthy task {i} submitted before the faulty one: its body recorded {v} within 5 s (expected {}, exactly once)", i * 10 + 3)}));
        }
    }
    child::emit(json!({"ev":"done","k":0}));
    // wait until the faulty task has reached its fault
    let t = std::time::Instant::now();
    while started.load(Ordering::SeqCst) == 0 && t.elapsed() < Duration::from_secs(5) {
        std::thread::sleep(Duration::from_millis(1));
    }
    std::thread::sleep(Duration::from_millis(15));
    let _ = faulty;
    child::emit(json!({"ev":"start","k":1,"what":"after"}));
    let ha: Vec<_> = (0..usize::from(case.after)).map(|i| healthy(100 + i)).collect();
    for i in 0..ha.len() {
        let v = wait_for(100 + i);
        if v != (100 + i) * 10 + 3 {
            problems.push(json!({"kind":"healthy-task-after-disturbed","msg":format!("healthy task {i} submitted after the faulty task ({fault:?}) had ended: its body recorded {v} within 5 s (expected {}, exactly once)", (100 + i) * 10 + 3)}));
            break;
        }
    }
    // exactly once: give duplicates a moment to show
    std::thread::sleep(Duration::from_millis(5));
    for tag in (0..hb.len()).chain(100..100 + ha.len()) {
        let v = slots[tag].load(Ordering::SeqCst);
        if v != 0 && v != tag * 10 + 3 {
            problems.push(json!({"kind":"healthy-task-ran-twice","msg":format!("healthy task {tag} recorded {v}")}));
        }
    }
    child::emit(json!({"ev":"done","k":1}));
    child::emit(json!({"ev":"result","problems":problems,"faulty_started":started.load(Ordering::SeqCst)}));
    unsafe { libc::_exit(0) }
}

pub fn task_exec_once(c: &TaskCase) -> Outcome {
    let js = serde_json::to_string(c).unwrap();
    let r = child::run_child(&ChildSpec { args: vec!["C24taskchild".into()], stdin: &js, timeout: Duration::from_secs(40), env: vec![] });
    let mut o = Outcome::pass();
    o.nontrivial = c.suspends >= 1 || c.before >= 1;
    o = o.class_if(c.loops >= 2, "2-event-loops").class_if(c.before >= 1, "healthy-tasks-before");
    match &r.end {
        End::Exit(0) => {}
        End::Signal(sig) => {
            o.set_fail(
                format!("C24/tasks/process-killed-by-signal-{sig}"),
                format!("the process died (signal {sig}) with a faulty task {:?} on the event loop; {}", c.fault, r.stderr_tail.lines().rev().take(2).collect::<Vec<_>>().join(" | ")),
            );
            return o;
        }
        End::Deadline { .. } => {
            o.set_fail("C24/tasks/runtime-stuck-after-the-fault", format!("the child did not finish within 40 s (fault {:?}); open phase {:?}", c.fault, r.open_op()));
            return o;
        }
        End::Exit(_) => {
            o.excluded = Some("child-exited-nonzero");
            return o;
        }
    }
    if let Some(res) = r.result() {
        if res["faulty_started"].as_u64() != Some(1) {
            o.excluded = Some("faulty-task-never-started");
            return o;
        }
        if let Some(p) = res["problems"].as_array().and_then(|a| a.first()) {
            o.set_fail(format!("C24/tasks/{}", p["kind"].as_str().unwrap_or("problem")), p["msg"].as_str().unwrap_or("").to_string());
        }
    }
    o
}

pub fn task_exec(c: &TaskCase) -> Outcome {
    // a join that times out is a timing-flavoured verdict: confirm by repeat
    vkit::timing::confirm_repeat(task_exec_once(c), |s| s.contains("disturbed") || s.contains("stuck"), || task_exec_once(c), 2)
}

pub fn main(args: &Args) -> i32 {
    if let Some(p) = &args.replay {
        let (_, sub, case) = vkit::load_replay(p);
        let o = if sub == "tasks" { task_exec(&serde_json::from_value(case).expect("case")) } else { exec(&serde_json::from_value(case).expect("case")) };
        return vkit::replay_verdict("C24", p, &o);
    }
    let mut ev = Evidence::new("C24", args, "exploration");
    ev.assume("only addresses the harness knows to be inaccessible are touched (page 0, an own PROT_NONE page, guard pages reached by recursion)");
    ev.assume("the stack pointer is sampled by the harness immediately before the access (for recursion: at every level, the deepest one counts); guard pages belong to a segment, as the runtime documents for stack_ptr_in_bounds");
    ev.add(vkit::run_regress("C24", |sub, case| {
        if sub == "tasks" {
            task_exec(&serde_json::from_value(case).expect("case"))
        } else {
            exec(&serde_json::from_value(case).expect("case"))
        }
    }));
    if ev.has_violations() {
        return ev.finish();
    }
    ev.add(vkit::run_prop(
        &RunCfg {
            property: "C24",
            sub: "coroutines",
            rule: "fresh child per case: 1..5 coroutines on one thread (healthy, or faulty after 0..3 suspends and 0..39 frames with a fault out of 8 kinds), generated resume order, then one fresh healthy coroutine; non-trivial = a coroutine faults after >= 1 suspend while a healthy sibling exists",
            seed: args.seed,
            cases: args.cases(1_200, 20_000),
            shards: 16,
            max_shrink_iters: 300,
        },
        strategy,
        exec,
    ));
    ev.add(vkit::run_prop(
        &RunCfg {
            property: "C24",
            sub: "tasks",
            rule: "fresh child per case: 1..2 event loops, 0..3 healthy tasks, one faulty task (fault kind, depth, 0..2 suspends first), then 1..4 healthy tasks submitted after it ended; non-trivial = the faulty task suspended first or healthy tasks ran before it",
            seed: args.seed,
            cases: args.cases(240, 3_000),
            shards: 16,
            max_shrink_iters: 60,
        },
        task_strategy,
        task_exec,
    ));
    ev.finish()
}

//! C05 — higher-priority work is served first, FIFO among equals.
//!
//! Sub-runs (all on the real crate, single-threaded):
//!  S  strict, no-migration histories *by construction* (pushes never exceed the local
//!     capacity, a local pop is issued only on a non-empty local queue): the model knows
//!     where every item is, so the oracle is exact: a pop returns the (priority, push-seq)
//!     minimum of the queue that served it.
//!  O  overflow scenario: one local queue pushed beyond capacity, then the shared queue is
//!     drained directly, then the local one: each drain is non-decreasing in the priority the
//!     item was pushed with (keys survive the move to the shared queue); FIFO across an
//!     overflow is documented not to hold and is not asserted.
//!  T  steal scenario: queue A filled (below capacity), queue B pops, pushes (never beyond its
//!     capacity) and finally drains everything: with no pushes B's sequence is sorted by
//!     (priority, push-seq) (keys survive the steal, oldest first); with pushes the statement
//!     is applied to the items pushed to B.
//!  P  pool level: CoroutinePool with one worker, <= local capacity tasks with generated
//!     priorities: observed start order is sorted by (priority, submission index).
//!  Q  scheduler level: same for coroutines submitted to one Scheduler.

use super::qreal::{self, Ev, Loc, Op, Q};
use open_coroutine_core::co_pool::CoroutinePool;
use open_coroutine_core::scheduler::Scheduler;
use proptest::prelude::*;
use serde::{Deserialize, Serialize};
use std::cell::RefCell;
use std::collections::BTreeMap;
use std::rc::Rc;
use std::time::Duration;
use vkit::{pick, Args, Evidence, Outcome, RunCfg};

#[derive(Debug, Clone, Serialize, Deserialize)]
pub struct Hist {
    pub nlocals: u8,
    pub cap: u16,
    pub ops: Vec<Op>,
}

pub fn hist_strategy(max_ops: usize) -> impl Strategy<Value = Hist> {
    hist(max_ops)
}

fn hist(max_ops: usize) -> impl Strategy<Value = Hist> {
    (
        1u8..=4,
        prop_oneof![3 => 1u16..=8, 2 => 1u16..=64, 1 => Just(256u16)],
        proptest::collection::vec(qreal::op(6, 5, 3, 2), 0..max_ops),
    )
        .prop_map(|(nlocals, cap, ops)| Hist { nlocals, cap, ops })
}

#[derive(Clone, Copy, Debug)]
struct It {
    id: u32,
    prio: i64,
    seq: u32,
}

/// S: strict model. The history is normalised against the model so that it stays in the
/// no-migration regime; what is executed is a pure function of the generated value.
pub fn exec_s(h: &Hist) -> Outcome {
    let nl = h.nlocals.max(1) as usize;
    let cap = h.cap.max(1) as usize;
    let mut fail: Option<(String, String)> = None;
    let mut ties = false;
    let mut neg = false;
    let mut extreme = false;
    let mut pop_between = false;
    let mut shared_served_local_pop = 0u32;
    let mut executed = 0usize;
    let ((), _drained, stranded) = qreal::with_queue(true, nl, cap, |q: &Q<'_>| {
        let mut locals: Vec<Vec<It>> = vec![vec![]; nl];
        let mut shared: Vec<It> = vec![];
        let mut next = 0u32;
        let mut pushed_after_pop = false;
        let mut seen_pop = false;
        let mut seen: BTreeMap<i64, u32> = BTreeMap::new();
        for op in &h.ops {
            if fail.is_some() {
                break;
            }
            match *op {
                Op::LPush { q: qi, prio } => {
                    let qi = pick(qi, nl);
                    if locals[qi].len() + 1 > cap.saturating_sub(0) || locals[qi].len() >= cap {
                        continue; // would overflow: not part of the strict regime
                    }
                    let it = It { id: next, prio, seq: next };
                    next += 1;
                    q.lpush(qi, prio, it.id);
                    locals[qi].push(it);
                    *seen.entry(prio).or_default() += 1;
                    if seen[&prio] > 1 {
                        ties = true;
                    }
                    neg |= prio < 0;
                    extreme |= prio == i64::MIN || prio == i64::MAX;
                    if seen_pop {
                        pushed_after_pop = true;
                    }
                    executed += 1;
                }
                Op::LPushDefault { q: qi } => {
                    let qi = pick(qi, nl);
                    if locals[qi].len() >= cap {
                        continue;
                    }
                    let it = It { id: next, prio: 0, seq: next };
                    next += 1;
                    q.lpush_default(qi, it.id);
                    locals[qi].push(it);
                    *seen.entry(0).or_default() += 1;
                    if seen[&0] > 1 {
                        ties = true;
                    }
                    executed += 1;
                }
                Op::SPush { prio } => {
                    let it = It { id: next, prio, seq: next };
                    next += 1;
                    q.spush(prio, it.id);
                    shared.push(it);
                    *seen.entry(prio).or_default() += 1;
                    if seen[&prio] > 1 {
                        ties = true;
                    }
                    neg |= prio < 0;
                    extreme |= prio == i64::MIN || prio == i64::MAX;
                    executed += 1;
                }
                Op::LPop { q: qi } => {
                    let qi = pick(qi, nl);
                    if locals[qi].is_empty() {
                        continue; // an empty local would steal: not the strict regime
                    }
                    seen_pop = true;
                    if pushed_after_pop {
                        pop_between = true;
                    }
                    executed += 1;
                    let got = q.lpop(qi);
                    match got {
                        None => {
                            fail = Some((
                                "C05/S/pop-none-while-own-queue-nonempty".into(),
                                format!("local {qi} holds {} items but pop() returned None", locals[qi].len()),
                            ));
                        }
                        Some(id) => {
                            if let Some(pos) = locals[qi].iter().position(|i| i.id == id) {
                                let x = locals[qi][pos];
                                if let Some(w) = locals[qi]
                                    .iter()
                                    .find(|w| (w.prio, w.seq) < (x.prio, x.seq))
                                {
                                    let kind = if w.prio < x.prio { "higher-priority-item-waiting" } else { "fifo-among-equals" };
                                    fail = Some((
                                        format!("C05/S/local-pop/{kind}"),
                                        format!(
                                            "local {qi} returned item#{} (prio {}, seq {}) while item#{} (prio {}, seq {}) pushed earlier to the same queue is still waiting",
                                            x.id, x.prio, x.seq, w.id, w.prio, w.seq
                                        ),
                                    ));
                                }
                                locals[qi].remove(pos);
                            } else if let Some(pos) = shared.iter().position(|i| i.id == id) {
                                shared_served_local_pop += 1;
                                let x = shared[pos];
                                if let Some(w) = shared.iter().find(|w| (w.prio, w.seq) < (x.prio, x.seq)) {
                                    let kind = if w.prio < x.prio { "higher-priority-item-waiting" } else { "fifo-among-equals" };
                                    fail = Some((
                                        format!("C05/S/shared-served/{kind}"),
                                        format!(
                                            "pop on local {qi} served shared item#{} (prio {}, seq {}) while shared item#{} (prio {}, seq {}) is still waiting",
                                            x.id, x.prio, x.seq, w.id, w.prio, w.seq
                                        ),
                                    ));
                                }
                                shared.remove(pos);
                            } else {
                                fail = Some((
                                    "C05/S/pop-returned-item-of-another-queue".into(),
                                    format!("pop on non-empty local {qi} returned item#{id} which is neither in it nor in the shared queue"),
                                ));
                            }
                        }
                    }
                }
                Op::SPop => {
                    seen_pop = true;
                    executed += 1;
                    let got = q.spop();
                    match (got, shared.is_empty()) {
                        (None, true) => {}
                        (None, false) => {
                            fail = Some((
                                "C05/S/shared-pop-none-while-nonempty".into(),
                                format!("shared holds {} items but pop() returned None", shared.len()),
                            ));
                        }
                        (Some(id), _) => {
                            if let Some(pos) = shared.iter().position(|i| i.id == id) {
                                let x = shared[pos];
                                if let Some(w) = shared.iter().find(|w| (w.prio, w.seq) < (x.prio, x.seq)) {
                                    let kind = if w.prio < x.prio { "higher-priority-item-waiting" } else { "fifo-among-equals" };
                                    fail = Some((
                                        format!("C05/S/shared-pop/{kind}"),
                                        format!(
                                            "shared pop returned item#{} (prio {}, seq {}) while item#{} (prio {}, seq {}) is still waiting",
                                            x.id, x.prio, x.seq, w.id, w.prio, w.seq
                                        ),
                                    ));
                                }
                                shared.remove(pos);
                            } else {
                                fail = Some((
                                    "C05/S/shared-pop-returned-local-item".into(),
                                    format!("shared pop returned item#{id} that was never pushed to the shared queue"),
                                ));
                            }
                        }
                    }
                }
            }
        }
    });
    let mut o = Outcome::pass()
        .nt(ties && neg && extreme && pop_between)
        .class_if(ties, "has-tie")
        .class_if(neg, "has-negative")
        .class_if(extreme, "has-i64-extreme")
        .class_if(pop_between, "pop-between-pushes")
        .class_if(shared_served_local_pop > 0, "local-pop-served-from-shared")
        .class_if(executed >= 61, "61+ops");
    if let Some((s, m)) = fail {
        o.set_fail(s, m);
    } else if stranded {
        o.set_fail("C05/S/items-stranded-after-drain", "final drain through the public API left items behind");
    }
    o
}

#[derive(Debug, Clone, Serialize, Deserialize)]
pub struct Scen {
    pub cap: u16,
    pub prios: Vec<i64>,
    /// T only: operations of the thief B after A was filled: None = pop, Some(p) = push
    #[serde(default)]
    pub b_ops: Vec<Option<i64>>,
}

pub fn scen_strategy() -> impl Strategy<Value = Scen> {
    scen()
}

fn scen() -> impl Strategy<Value = Scen> {
    // the thief's program is made of short runs: pops, pushes with a fresh priority, and pushes
    // with the priority of one of A's items (a priority the thief first meets through a steal)
    #[derive(Debug, Clone)]
    enum Seg {
        Pop,
        Push(i64),
        PushLike(u16),
    }
    let seg = (prop_oneof![3 => Just(Seg::Pop), 2 => qreal::prio().prop_map(Seg::Push), 3 => any::<u16>().prop_map(Seg::PushLike)], 1usize..=6);
    (prop_oneof![3 => 1u16..=8, 2 => 1u16..=40], proptest::collection::vec(qreal::prio(), 1..120), proptest::collection::vec(seg, 0..16)).prop_map(|(cap, prios, segs)| {
        let mut b_ops = vec![];
        for (sg, n) in segs {
            for _ in 0..n {
                b_ops.push(match sg {
                    Seg::Pop => None,
                    Seg::Push(p) => Some(p),
                    Seg::PushLike(ix) => Some(prios[pick(ix, prios.len().min(usize::from(cap)).max(1))]),
                });
            }
        }
        Scen { cap, prios, b_ops }
    })
}

/// O: overflow keeps keys. One local queue, pushes beyond capacity, no pops in between.
pub fn exec_o(s: &Scen) -> Outcome {
    let cap = s.cap.max(1) as usize;
    let n = s.prios.len();
    let mut fail = None;
    let mut overflowed = false;
    let ((), _d, stranded) = qreal::with_queue(true, 1, cap, |q| {
        for (i, p) in s.prios.iter().enumerate() {
            vkit::hang::guard("O", "C04/push/does-not-return", || serde_json::to_string(s).unwrap(), || q.lpush(0, *p, i as u32));
        }
        overflowed = q.shared_len() > 0;
        // drain shared directly: non-decreasing priorities
        let mut last: Option<(i64, u32)> = None;
        let mut got_ids = vec![];
        while let Some(id) = q.spop() {
            let p = s.prios[id as usize];
            if let Some((lp, lid)) = last {
                if p < lp {
                    fail = Some((
                        "C05/O/shared-drain-not-priority-ordered".to_string(),
                        format!("after overflow the shared queue returned item#{id} (prio {p}) after item#{lid} (prio {lp})"),
                    ));
                }
            }
            last = Some((p, id));
            got_ids.push(id);
        }
        // then the local queue: sorted by (prio, seq) — what stays local keeps its order
        let mut lastl: Option<(i64, u32)> = None;
        while let Some(id) = q.lpop(0) {
            let p = s.prios[id as usize];
            if let Some((lp, lid)) = lastl {
                if (p, id) < (lp, lid) {
                    let kind = if p < lp { "not-priority-ordered" } else { "fifo-among-equals" };
                    fail.get_or_insert((
                        format!("C05/O/local-drain-{kind}"),
                        format!("local drain returned item#{id} (prio {p}) after item#{lid} (prio {lp})"),
                    ));
                }
            }
            lastl = Some((p, id));
            got_ids.push(id);
        }
        got_ids.sort_unstable();
        if fail.is_none() && got_ids != (0..n as u32).collect::<Vec<_>>() {
            fail = Some(("C05/O/drain-is-not-the-pushed-set".into(), format!("pushed {n} items, drained {:?}", got_ids.len())));
        }
    });
    let distinct: std::collections::BTreeSet<_> = s.prios.iter().collect();
    let mut o = Outcome::pass()
        .nt(overflowed && distinct.len() >= 2)
        .class_if(overflowed, "overflowed")
        .class_if(distinct.len() < s.prios.len(), "has-tie");
    if let Some((a, b)) = fail {
        o.set_fail(a, b);
    } else if stranded {
        o.set_fail("C05/O/items-stranded-after-drain", "drain left items behind");
    }
    o
}

/// T: steals keep keys. A is filled below capacity; then the thief B runs a generated
/// sequence of pops and pushes (a push is issued only while B holds fewer items than its
/// capacity, so B never overflows; pushes often reuse the priority of an item of A), then drains.
/// Oracle (the statement, applied to B): a pop on B never returns an item while an item
/// pushed to B with a strictly smaller priority value is still waiting in B; items pushed
/// to B with equal priority leave in push order; with no pushes at all B's drain of A is
/// sorted by (priority, push-seq).
pub fn exec_t(s: &Scen) -> Outcome {
    let cap = s.cap.max(1) as usize;
    let n = s.prios.len().min(cap);
    let mut fail: Option<(String, String)> = None;
    let mut b_pushed_while_holding_stolen = false;
    let mut b_pushed_beyond_half = false;
    let ((), _d, stranded) = qreal::with_queue(true, 2, cap, |q| {
        for (i, p) in s.prios.iter().take(n).enumerate() {
            q.lpush(0, *p, i as u32);
        }
        let mut own: Vec<It> = vec![]; // items pushed to B and not yet returned
        let mut next = n as u32;
        let mut b_pushes = 0usize;
        let stolen_seen = std::cell::Cell::new(0usize); // items of A returned by B so far
        let mut last_pure: Option<(i64, u32)> = None; // ordering of A's items while B never pushed
        let mut check_pop = |got: Option<u32>, own: &mut Vec<It>, fail: &mut Option<(String, String)>, pure: bool| -> bool {
            let Some(id) = got else { return false };
            let (px, from_a) = if (id as usize) < n {
                (s.prios[id as usize], true)
            } else {
                (own.iter().find(|i| i.id == id).map_or(0, |i| i.prio), false)
            };
            if from_a {
                stolen_seen.set(stolen_seen.get() + 1);
                if pure {
                    if let Some((lp, lid)) = last_pure {
                        if (px, id) < (lp, lid) {
                            let kind = if px < lp { "not-priority-ordered" } else { "fifo-among-equals" };
                            fail.get_or_insert((
                                format!("C05/T/thief-drain-{kind}"),
                                format!("thief returned item#{id} (prio {px}) after item#{lid} (prio {lp})"),
                            ));
                        }
                    }
                    last_pure = Some((px, id));
                }
            }
            if let Some(w) = own.iter().find(|w| w.prio < px) {
                fail.get_or_insert((
                    "C05/T/pop/higher-priority-item-waiting".into(),
                    format!(
                        "pop on B returned item#{id} (prio {px}{}) while item#{} (prio {}) pushed to B is still waiting",
                        if from_a { ", stolen from A" } else { "" },
                        w.id,
                        w.prio
                    ),
                ));
            }
            if !from_a {
                if let Some(w) = own.iter().find(|w| w.prio == px && w.seq < id) {
                    fail.get_or_insert((
                        "C05/T/pop/fifo-among-equals".into(),
                        format!("pop on B returned item#{id} (prio {px}) before item#{} of the same priority pushed to B earlier", w.id),
                    ));
                }
                own.retain(|i| i.id != id);
            }
            true
        };
        let mut pure = true;
        for op in &s.b_ops {
            match op {
                None => {
                    let got = vkit::hang::guard("T", "C04/pop/does-not-return", || serde_json::to_string(s).unwrap(), || q.lpop(1));
                    let _ = check_pop(got, &mut own, &mut fail, pure);
                }
                Some(p) => {
                    // the regime of the statement: no more items queued in B than its capacity
                    // (an overflow moves items to the shared queue, where FIFO is not promised)
                    if q.local_len(1) >= cap || q.local_len(1) < own.len() {
                        continue;
                    }
                    b_pushes += 1;
                    if b_pushes > cap / 2 {
                        b_pushed_beyond_half = true;
                    }
                    pure = false;
                    if stolen_seen.get() > 0 {
                        b_pushed_while_holding_stolen = true;
                    }
                    let it = It { id: next, prio: *p, seq: next };
                    next += 1;
                    vkit::hang::guard("T", "C04/push/does-not-return", || serde_json::to_string(s).unwrap(), || q.lpush(1, *p, it.id));
                    own.push(it);
                }
            }
        }
        loop {
            let got = vkit::hang::guard("T", "C04/pop/does-not-return", || serde_json::to_string(s).unwrap(), || q.lpop(1));
            if !check_pop(got, &mut own, &mut fail, pure) {
                break;
            }
        }
    });
    let distinct: std::collections::BTreeSet<_> = s.prios.iter().take(n).collect();
    let mut o = Outcome::pass()
        .nt(n >= 3 && (distinct.len() >= 2 || b_pushed_while_holding_stolen))
        .class_if(distinct.len() < n, "has-tie")
        .class_if(n >= 3, "3+items")
        .class_if(b_pushed_while_holding_stolen, "thief-pushes-after-a-steal")
        .class_if(b_pushed_beyond_half, "thief-pushed-more-than-half-its-capacity");
    if let Some((a, b)) = fail {
        o.set_fail(a, b);
    }
    let _ = stranded; // stranded items after a steal are C06/C04's business, not ordering
    o
}

#[derive(Debug, Clone, Serialize, Deserialize)]
pub struct PoolCase {
    pub prios: Vec<Option<i64>>,
}

fn pool_case() -> impl Strategy<Value = PoolCase> {
    proptest::collection::vec(prop_oneof![5 => qreal::prio().prop_map(Some), 1 => Just(None)], 1..200)
        .prop_map(|prios| PoolCase { prios })
}

thread_local! {
    static SERIAL: RefCell<u64> = const { RefCell::new(0) };
}

fn check_sorted(prios: &[Option<i64>], order: &[usize], what: &str) -> Option<(String, String)> {
    if order.len() != prios.len() {
        return Some((
            format!("C05/{what}/not-every-item-ran-exactly-once"),
            format!("{} submitted, {} started", prios.len(), order.len()),
        ));
    }
    for w in order.windows(2) {
        let (a, b) = (w[0], w[1]);
        let (pa, pb) = (prios[a].unwrap_or(0), prios[b].unwrap_or(0));
        if (pb, b) < (pa, a) {
            let kind = if pb < pa { "higher-priority-started-later" } else { "fifo-among-equals" };
            return Some((
                format!("C05/{what}/{kind}"),
                format!("#{a} (prio {pa}) started before #{b} (prio {pb})"),
            ));
        }
    }
    None
}

/// P: single-worker pool.
pub fn exec_p(c: &PoolCase) -> Outcome {
    let serial = SERIAL.with(|s| {
        *s.borrow_mut() += 1;
        *s.borrow()
    });
    let order: Rc<RefCell<Vec<usize>>> = Rc::default();
    let mut pool = CoroutinePool::new(format!("c05-pool-{serial}"), 128 * 1024, 0, 1, 0);
    for (i, p) in c.prios.iter().enumerate() {
        let order = order.clone();
        pool.submit_task(
            Some(format!("c05-{serial}-{i}")),
            move |_| {
                order.borrow_mut().push(i);
                None
            },
            None,
            *p,
        )
        .expect("submit");
    }
    let mut guard = 0;
    while order.borrow().len() < c.prios.len() && guard < 50 {
        pool.try_timed_schedule_task(Duration::from_millis(200)).expect("schedule");
        guard += 1;
    }
    let _ = pool.stop(Duration::from_secs(2));
    drop(pool);
    let order = order.borrow().clone();
    let distinct: std::collections::BTreeSet<_> = c.prios.iter().map(|p| p.unwrap_or(0)).collect();
    let mut o = Outcome::pass()
        .nt(c.prios.len() >= 3 && distinct.len() >= 2)
        .class_if(distinct.len() < c.prios.len(), "has-tie")
        .class_if(c.prios.iter().any(|p| p.is_none()), "has-default-priority");
    if let Some((a, b)) = check_sorted(&c.prios, &order, "P") {
        o.set_fail(a, b);
    }
    o
}

/// Q: one scheduler, coroutines with priorities.
pub fn exec_q(c: &PoolCase) -> Outcome {
    let serial = SERIAL.with(|s| {
        *s.borrow_mut() += 1;
        *s.borrow()
    });
    let order: Rc<RefCell<Vec<usize>>> = Rc::default();
    let mut sch = Scheduler::new(format!("c05-sched-{serial}"), 64 * 1024);
    for (i, p) in c.prios.iter().enumerate() {
        let order = order.clone();
        sch.submit_co(
            move |_, ()| {
                order.borrow_mut().push(i);
                None
            },
            None,
            *p,
        )
        .expect("submit_co");
    }
    sch.try_schedule().expect("schedule");
    drop(sch);
    let order = order.borrow().clone();
    let distinct: std::collections::BTreeSet<_> = c.prios.iter().map(|p| p.unwrap_or(0)).collect();
    let mut o = Outcome::pass()
        .nt(c.prios.len() >= 3 && distinct.len() >= 2)
        .class_if(distinct.len() < c.prios.len(), "has-tie");
    if let Some((a, b)) = check_sorted(&c.prios, &order, "Q") {
        o.set_fail(a, b);
    }
    o
}

pub fn replay(sub: &str, case: serde_json::Value) -> Outcome {
    match sub {
        "S" => exec_s(&serde_json::from_value(case).expect("case")),
        "O" => exec_o(&serde_json::from_value(case).expect("case")),
        "T" => exec_t(&serde_json::from_value(case).expect("case")),
        "P" => exec_p(&serde_json::from_value(case).expect("case")),
        "Q" => exec_q(&serde_json::from_value(case).expect("case")),
        _ => Outcome::fail("C05/replay/unknown-sub", sub.to_string()),
    }
}

pub fn main(args: &Args) -> i32 {
    vkit::hang::start_monitor_inconclusive("C05", Duration::from_secs(20));
    if let Some(p) = &args.replay {
        let (_, sub, case) = vkit::load_replay(p);
        return vkit::replay_verdict("C05", p, &replay(&sub, case));
    }
    let mut ev = Evidence::new("C05", args, "exploration");
    ev.assume("single-threaded histories (concurrent interleavings are C03's business)");
    ev.assume("FIFO among equal priorities is asserted only where no overflow moved items (the documentation shows reordering across an overflow)");
    ev.add(vkit::run_regress("C05", |sub, case| replay(sub, case)));
    if ev.has_violations() {
        return ev.finish();
    }
    let mk = |sub: &'static str, rule: &'static str, cases: u32, shards: u32| RunCfg {
        property: "C05",
        sub,
        rule,
        seed: args.seed,
        cases,
        shards,
        max_shrink_iters: 4000,
    };
    ev.add(vkit::run_prop(
        &mk("S", "no-migration histories over 1..4 local queues + shared (normalised against the model); non-trivial = has a tie, a negative and an i64 extreme priority and a pop between pushes", args.cases(20_000, 600_000), 8),
        || hist(args.tier.pick(120, 300)),
        exec_s,
    ));
    ev.add(vkit::run_prop(
        &mk("O", "one local queue pushed beyond capacity then drained shared-first; non-trivial = an overflow happened and >=2 distinct priorities", args.cases(6_000, 150_000), 8),
        scen,
        exec_o,
    ));
    ev.add(vkit::run_prop(
        &mk("T", "queue A filled below capacity, sibling B runs generated runs of pops and pushes (a push only while B holds fewer items than its capacity; priorities fresh or taken from A's items) and drains by stealing; non-trivial = >=3 items and (>=2 distinct priorities or B pushed while holding stolen items)", args.cases(6_000, 150_000), 8),
        scen,
        exec_t,
    ));
    // P and Q share the process-wide task / coroutine queues: one shard only.
    ev.add(vkit::run_prop(
        &mk("P", "CoroutinePool(max_size=1) with 1..200 tasks of generated priorities; non-trivial = >=3 tasks, >=2 distinct priorities", args.cases(150, 4_000), 1),
        pool_case,
        exec_p,
    ));
    ev.add(vkit::run_prop(
        &mk("Q", "Scheduler with 1..200 coroutines of generated priorities; non-trivial = >=3 coroutines, >=2 distinct priorities", args.cases(150, 4_000), 1),
        pool_case,
        exec_q,
    ));
    ev.finish()
}

#[allow(dead_code)]
fn _unused(_: Ev, _: Loc) {}

//! C07 — coroutine lifecycle follows the documented state machine.
//!
//! Sub-run `raw`: a generated body script and a generated driver script are interpreted
//! against a reference model of the documented graph *and* against a real coroutine. Every
//! API call (legal or illegal) has a model-predicted result and a model-predicted listener
//! record; the recorded listener events must equal the predicted list exactly (each change
//! once, correct old/new, one matching specific callback), `state()` must equal the model
//! state between steps, illegal attempts must fail without a record, and nothing happens
//! after a terminal state.
//! Sub-run `sched`: coroutines run by a `Scheduler` (the only way to see Suspend→Ready):
//! validity predicate over the recorded events (chain, edges of the graph, due times).

use open_coroutine_core::common::constants::{CoroutineState, SyscallName, SyscallState};
use open_coroutine_core::common::now;
use open_coroutine_core::coroutine::listener::Listener;
use open_coroutine_core::coroutine::local::CoroutineLocal;
use open_coroutine_core::coroutine::suspender::Suspender;
use open_coroutine_core::coroutine::Coroutine;
use open_coroutine_core::scheduler::Scheduler;
use proptest::prelude::*;
use serde::{Deserialize, Serialize};
use std::cell::RefCell;
use std::rc::Rc;
use std::time::Duration;
use vkit::{Args, Evidence, Outcome, RunCfg};

type St = CoroutineState<(), Option<usize>>;
type Co<'a> = Coroutine<'a, (), (), Option<usize>>;

const NAMES: [SyscallName; 4] = [SyscallName::read, SyscallName::write, SyscallName::nanosleep, SyscallName::epoll_wait];

#[derive(Debug, Clone, Copy, Serialize, Deserialize, PartialEq)]
pub enum When {
    Past,
    Now,
    /// now + ms
    Soon(u8),
}

#[derive(Debug, Clone, Copy, Serialize, Deserialize, PartialEq)]
pub enum SysK {
    Executing,
    Suspend(When),
    Callback,
    Timeout,
}

#[derive(Debug, Clone, Copy, Serialize, Deserialize, PartialEq)]
pub enum BodyAct {
    Suspend,
    Until(When),
    /// `co.syscall((), NAMES[name], state)` — legal from Running or from Syscall of the same name
    Sys { name: u8, st: SysK },
    /// `co.running()` from inside the body
    RunningCall,
    Cancel,
    Panic,
    Return(u8),
    /// panic / return right where the body is, even inside a syscall state (the documented
    /// graph has no Syscall -> Error / Complete edge: nothing may be reported)
    PanicInPlace,
    ReturnInPlace(u8),
}

#[derive(Debug, Clone, Copy, Serialize, Deserialize, PartialEq)]
pub enum DriverAct {
    TryResumeEarly,
    RunningCall,
    MarkCallback,
    MarkTimeout,
    Plain,
}

#[derive(Debug, Clone, Serialize, Deserialize)]
pub struct Case {
    pub body: Vec<BodyAct>,
    pub driver: Vec<DriverAct>,
    pub extra_resumes: u8,
}

fn when() -> impl Strategy<Value = When> {
    prop_oneof![2 => Just(When::Past), 1 => Just(When::Now), 2 => (6u8..14).prop_map(When::Soon)]
}

fn body_act() -> impl Strategy<Value = BodyAct> {
    prop_oneof![
        4 => Just(BodyAct::Suspend),
        3 => when().prop_map(BodyAct::Until),
        6 => (0u8..4, prop_oneof![3 => Just(SysK::Executing), 2 => when().prop_map(SysK::Suspend), 1 => Just(SysK::Callback), 1 => Just(SysK::Timeout)])
            .prop_map(|(name, st)| BodyAct::Sys { name, st }),
        2 => Just(BodyAct::RunningCall),
    ]
}

pub fn strategy() -> impl Strategy<Value = Case> {
    (
        proptest::collection::vec(body_act(), 0..14),
        prop_oneof![4 => (0u8..8).prop_map(BodyAct::Return), 2 => Just(BodyAct::Panic), 2 => Just(BodyAct::Cancel), 2 => Just(BodyAct::PanicInPlace), 1 => (0u8..8).prop_map(BodyAct::ReturnInPlace)],
        proptest::collection::vec(
            prop_oneof![
                3 => Just(DriverAct::Plain),
                2 => Just(DriverAct::TryResumeEarly),
                2 => Just(DriverAct::RunningCall),
                2 => Just(DriverAct::MarkCallback),
                2 => Just(DriverAct::MarkTimeout),
            ],
            0..24,
        ),
        0u8..3,
    )
        .prop_map(|(mut body, end, driver, extra_resumes)| {
            body.push(end);
            Case { body, driver, extra_resumes }
        })
}

#[derive(Debug, Clone, PartialEq)]
enum Rec {
    Changed(St, St, u64),
    Specific(&'static str, St),
}

#[derive(Debug)]
struct Recorder(Rc<RefCell<Vec<Rec>>>);

impl Listener<(), Option<usize>> for Recorder {
    fn on_state_changed(&self, _: &CoroutineLocal, old: St, new: St) {
        self.0.borrow_mut().push(Rec::Changed(old, new, now()));
    }
    fn on_ready(&self, _: &CoroutineLocal, old: St) {
        self.0.borrow_mut().push(Rec::Specific("ready", old));
    }
    fn on_running(&self, _: &CoroutineLocal, old: St) {
        self.0.borrow_mut().push(Rec::Specific("running", old));
    }
    fn on_suspend(&self, _: &CoroutineLocal, old: St) {
        self.0.borrow_mut().push(Rec::Specific("suspend", old));
    }
    fn on_syscall(&self, _: &CoroutineLocal, old: St) {
        self.0.borrow_mut().push(Rec::Specific("syscall", old));
    }
    fn on_cancel(&self, _: &CoroutineLocal, old: St) {
        self.0.borrow_mut().push(Rec::Specific("cancel", old));
    }
    fn on_complete(&self, _: &CoroutineLocal, old: St, _: Option<usize>) {
        self.0.borrow_mut().push(Rec::Specific("complete", old));
    }
    fn on_error(&self, _: &CoroutineLocal, old: St, _: &str) {
        self.0.borrow_mut().push(Rec::Specific("error", old));
    }
}

fn kind_name(s: &St) -> &'static str {
    match s {
        CoroutineState::Ready => "ready",
        CoroutineState::Running => "running",
        CoroutineState::Suspend(..) => "suspend",
        CoroutineState::Syscall(..) => "syscall",
        CoroutineState::Cancelled => "cancel",
        CoroutineState::Complete(_) => "complete",
        CoroutineState::Error(_) => "error",
    }
}

fn is_terminal(s: &St) -> bool {
    matches!(s, CoroutineState::Cancelled | CoroutineState::Complete(_) | CoroutineState::Error(_))
}

/// Is (old → new) an edge of the documented graph? `at` = time of the event.
fn edge_ok(old: &St, new: &St, at: u64) -> Result<(), &'static str> {
    use CoroutineState as C;
    match (old, new) {
        (C::Ready, C::Running) => Ok(()),
        (C::Running, C::Suspend(..) | C::Syscall(..) | C::Complete(_) | C::Error(_) | C::Cancelled) => Ok(()),
        (C::Syscall((), _, _), C::Running) => Ok(()),
        (C::Syscall((), a, _), C::Syscall((), b, _)) => {
            if a == b {
                Ok(())
            } else {
                Err("syscall-to-syscall-of-another-call")
            }
        }
        (C::Suspend((), ts), C::Ready | C::Running) => {
            if *ts <= at {
                Ok(())
            } else {
                Err("left-suspend-before-due")
            }
        }
        (o, _) if is_terminal(o) => Err("left-terminal-state"),
        _ => Err("edge-not-in-graph"),
    }
}

#[derive(Default)]
struct Shared {
    model: Option<St>,
    expected: Vec<(St, St)>,
    body_steps: usize,
    fail: Option<(String, String)>,
    illegal: u32,
    kinds: std::collections::BTreeSet<&'static str>,
    syscall_cycles: u32,
    /// the body ended while the coroutine was in a syscall state
    limbo: bool,
}

impl Shared {
    fn cur(&self) -> St {
        self.model.unwrap_or(CoroutineState::Ready)
    }
    fn change(&mut self, new: St) {
        let old = self.cur();
        self.expected.push((old, new));
        self.kinds.insert(kind_name(&new));
        self.model = Some(new);
    }
    fn fail(&mut self, sig: &str, msg: String) {
        if self.fail.is_none() {
            self.fail = Some((sig.to_string(), msg));
        }
    }
}

fn ts_of(w: When) -> u64 {
    match w {
        When::Past => 1_000,
        When::Now => now(),
        When::Soon(ms) => now() + u64::from(ms) * 1_000_000,
    }
}

fn sys_state(k: SysK) -> SyscallState {
    match k {
        SysK::Executing => SyscallState::Executing,
        SysK::Suspend(w) => SyscallState::Suspend(ts_of(w)),
        SysK::Callback => SyscallState::Callback,
        SysK::Timeout => SyscallState::Timeout,
    }
}

/// model of `co.syscall((), name, st)` + check of the real result
fn do_syscall(co: &Co<'_>, sh: &Rc<RefCell<Shared>>, name: SyscallName, st: SyscallState, who: &str) {
    let cur = sh.borrow().cur();
    let legal = match cur {
        CoroutineState::Running => true,
        CoroutineState::Syscall((), n, _) => n == name,
        _ => false,
    };
    let r = co.syscall((), name, st);
    let mut s = sh.borrow_mut();
    if legal {
        if r.is_err() {
            s.fail("C07/raw/legal-syscall-transition-refused", format!("{who}: {cur:?} -> Syscall({name},{st}) returned {r:?}"));
        }
        s.change(CoroutineState::Syscall((), name, st));
        if matches!(cur, CoroutineState::Syscall(..)) {
            s.syscall_cycles += 1;
        }
    } else {
        s.illegal += 1;
        if r.is_ok() {
            s.fail(
                "C07/raw/illegal-syscall-transition-accepted",
                format!("{who}: syscall((), {name}, {st}) from {cur:?} returned Ok"),
            );
            // keep the model in step with reality so that later messages stay readable
            s.change(CoroutineState::Syscall((), name, st));
        }
    }
}

/// model of `co.running()`; returns false when the outcome is time-ambiguous (skipped)
fn do_running(co: &Co<'_>, sh: &Rc<RefCell<Shared>>, who: &str) {
    let cur = sh.borrow().cur();
    let t = now();
    #[derive(PartialEq)]
    enum Exp {
        OkNoRec,
        OkRec,
        Err,
        Skip,
    }
    let exp = match cur {
        CoroutineState::Running => Exp::OkNoRec,
        CoroutineState::Ready | CoroutineState::Syscall((), _, SyscallState::Executing) => Exp::OkRec,
        CoroutineState::Syscall((), _, SyscallState::Callback | SyscallState::Timeout) => Exp::OkNoRec,
        CoroutineState::Suspend((), ts) => {
            if ts + 2_000_000 <= t {
                Exp::OkRec
            } else if ts >= t + 4_000_000 {
                Exp::Err
            } else {
                Exp::Skip
            }
        }
        _ => Exp::Err,
    };
    if exp == Exp::Skip {
        return;
    }
    let r = co.running();
    let mut s = sh.borrow_mut();
    match exp {
        Exp::OkNoRec => {
            if r.is_err() {
                s.fail("C07/raw/running-refused", format!("{who}: running() from {cur:?} returned {r:?}"));
            }
        }
        Exp::OkRec => {
            if r.is_err() {
                s.fail("C07/raw/running-refused", format!("{who}: running() from {cur:?} returned {r:?}"));
            }
            s.change(CoroutineState::Running);
        }
        Exp::Err => {
            s.illegal += 1;
            if r.is_ok() {
                let sig = if is_terminal(&cur) { "C07/raw/left-terminal-state" } else { "C07/raw/illegal-running-transition-accepted" };
                s.fail(sig, format!("{who}: running() from {cur:?} returned Ok"));
                s.change(CoroutineState::Running);
            }
        }
        Exp::Skip => {}
    }
}

pub fn exec_raw(c: &Case) -> Outcome {
    // fresh thread: a refused resume leaves a stale entry in the thread-local "current" stack
    std::thread::scope(|sc| {
        std::thread::Builder::new()
            .stack_size(1 << 20)
            .spawn_scoped(sc, || exec_raw_inner(c))
            .expect("spawn")
            .join()
            .unwrap_or_else(|_| Outcome::fail("C07/raw/harness-thread-panicked", "panic escaped the case thread"))
    })
}

fn exec_raw_inner(c: &Case) -> Outcome {
    let sh: Rc<RefCell<Shared>> = Rc::new(RefCell::new(Shared::default()));
    sh.borrow_mut().kinds.insert("ready");
    let recs: Rc<RefCell<Vec<Rec>>> = Rc::default();
    let body = c.body.clone();
    let bsh = sh.clone();
    let mut co: Co<'_> = Coroutine::new(
        None,
        move |s: &Suspender<(), ()>, ()| -> Option<usize> {
            let me = Co::current().expect("current coroutine");
            for act in &body {
                bsh.borrow_mut().body_steps += 1;
                match *act {
                    BodyAct::Suspend | BodyAct::Until(_) => {
                        let ts = if let BodyAct::Until(w) = act { ts_of(*w) } else { 0 };
                        let cur = bsh.borrow().cur();
                        if cur == CoroutineState::Running {
                            bsh.borrow_mut().change(CoroutineState::Suspend((), ts));
                        }
                        if ts == 0 {
                            s.suspend();
                        } else {
                            s.until(ts);
                        }
                    }
                    BodyAct::Sys { name, st } => do_syscall(me, &bsh, NAMES[name as usize % 4], sys_state(st), "body"),
                    BodyAct::RunningCall => do_running(me, &bsh, "body"),
                    BodyAct::PanicInPlace | BodyAct::ReturnInPlace(_) => {
                        let cur_now = bsh.borrow().cur();
                        let in_sys = matches!(cur_now, CoroutineState::Syscall(..));
                        if in_sys {
                            let mut g = bsh.borrow_mut();
                            g.limbo = true;
                            g.illegal += 1;
                        }
                        match *act {
                            BodyAct::PanicInPlace => {
                                if !in_sys {
                                    bsh.borrow_mut().change(CoroutineState::Error("c07 body panic"));
                                }
                                panic!("c07 body panic");
                            }
                            BodyAct::ReturnInPlace(v) => {
                                let r = if v == 0 { None } else { Some(v as usize) };
                                if !in_sys {
                                    bsh.borrow_mut().change(CoroutineState::Complete(r));
                                }
                                return r;
                            }
                            _ => unreachable!(),
                        }
                    }
                    BodyAct::Cancel | BodyAct::Panic | BodyAct::Return(_) => {
                        // leave any syscall state the way hooked code does before ending
                        let cur_now = bsh.borrow().cur();
                        if let CoroutineState::Syscall((), n, st) = cur_now {
                            if st != SyscallState::Executing {
                                do_syscall(me, &bsh, n, SyscallState::Executing, "body-exit");
                            }
                            do_running(me, &bsh, "body-exit");
                        }
                        match *act {
                            BodyAct::Cancel => {
                                bsh.borrow_mut().change(CoroutineState::Cancelled);
                                s.cancel();
                            }
                            BodyAct::Panic => {
                                bsh.borrow_mut().change(CoroutineState::Error("c07 body panic"));
                                panic!("c07 body panic");
                            }
                            BodyAct::Return(v) => {
                                let r = if v == 0 { None } else { Some(v as usize) };
                                bsh.borrow_mut().change(CoroutineState::Complete(r));
                                return r;
                            }
                            _ => unreachable!(),
                        }
                    }
                }
            }
            unreachable!("body script always ends with a terminal act")
        },
        Some(128 * 1024),
        None,
    )
    .expect("create");
    co.add_listener(Recorder(recs.clone()));

    let mut di = 0usize;
    let mut turns = 0;
    let check_state = |co: &Co<'_>, sh: &Rc<RefCell<Shared>>, wher: &str| {
        let m = sh.borrow().cur();
        let real = co.state();
        if real != m {
            sh.borrow_mut().fail(
                "C07/raw/state-differs-from-model",
                format!("{wher}: state() = {real:?}, documented state machine says {m:?}"),
            );
        }
    };
    loop {
        turns += 1;
        if turns > 400 || sh.borrow().fail.is_some() {
            break;
        }
        check_state(&co, &sh, "before driver turn");
        let cur = sh.borrow().cur();
        if is_terminal(&cur) {
            break;
        }
        let act = c.driver.get(di).copied().unwrap_or(DriverAct::Plain);
        di += 1;
        let steps_before = sh.borrow().body_steps;
        let recs_before = recs.borrow().len();
        let mut expect_refused = false;
        match cur {
            CoroutineState::Suspend((), ts) if ts > now() => match act {
                DriverAct::TryResumeEarly if ts >= now() + 4_000_000 => expect_refused = true,
                DriverAct::RunningCall => {
                    do_running(&co, &sh, "driver");
                    continue;
                }
                _ => {
                    let wait = ts.saturating_sub(now()) + 2_500_000;
                    std::thread::sleep(Duration::from_nanos(wait));
                }
            },
            CoroutineState::Suspend((), ts) => {
                if act == DriverAct::RunningCall {
                    do_running(&co, &sh, "driver");
                    continue;
                }
                if ts + 2_000_000 > now() {
                    std::thread::sleep(Duration::from_millis(3));
                }
            }
            CoroutineState::Syscall((), n, SyscallState::Suspend(_)) => match act {
                DriverAct::TryResumeEarly => expect_refused = true,
                DriverAct::RunningCall => {
                    do_running(&co, &sh, "driver");
                    continue;
                }
                DriverAct::MarkTimeout => do_syscall(&co, &sh, n, SyscallState::Timeout, "driver"),
                _ => do_syscall(&co, &sh, n, SyscallState::Callback, "driver"),
            },
            CoroutineState::Ready | CoroutineState::Syscall(..) => {
                if act == DriverAct::RunningCall {
                    do_running(&co, &sh, "driver");
                }
            }
            _ => {}
        }
        // model of resume()
        let cur = sh.borrow().cur();
        if !expect_refused {
            match cur {
                CoroutineState::Ready | CoroutineState::Suspend(..) | CoroutineState::Syscall((), _, SyscallState::Executing) => {
                    sh.borrow_mut().change(CoroutineState::Running);
                }
                CoroutineState::Running => {}
                CoroutineState::Syscall((), _, SyscallState::Callback | SyscallState::Timeout) => {}
                _ => {}
            }
        } else {
            sh.borrow_mut().illegal += 1;
        }
        let r = std::panic::catch_unwind(std::panic::AssertUnwindSafe(|| co.resume()));
        let Ok(r) = r else {
            sh.borrow_mut().fail("C07/raw/panic-unwound-into-resumer", "resume() panicked".into());
            break;
        };
        if sh.borrow().limbo {
            // the body ended inside a syscall state: no edge of the graph applies
            if r.is_ok() {
                let st = sh.borrow().cur();
                sh.borrow_mut().fail(
                    "C07/raw/body-end-in-syscall-state-reported-as-a-transition",
                    format!("the body ended while the coroutine was in {st:?}; resume() returned {r:?} (Syscall may only go to Running or to Syscall of the same call)"),
                );
            }
            break;
        }
        if expect_refused {
            if r.is_ok() || sh.borrow().body_steps != steps_before || recs.borrow().len() != recs_before {
                sh.borrow_mut().fail(
                    "C07/raw/refused-resume-had-effects",
                    format!("resume() of a coroutine in {cur:?} (not resumable yet) returned {r:?}, body advanced: {}, records added: {}",
                        sh.borrow().body_steps != steps_before, recs.borrow().len() - recs_before),
                );
            }
        } else {
            let m = sh.borrow().cur();
            match r {
                Ok(s) if s == m => {}
                other => {
                    sh.borrow_mut().fail(
                        "C07/raw/resume-result-differs-from-model",
                        format!("resume() from {cur:?} returned {other:?}, documented state machine says {m:?}"),
                    );
                }
            }
        }
    }
    // after the end: sticky, no code, no records
    let illegal_generated = sh.borrow().illegal;
    let term = sh.borrow().cur();
    if sh.borrow().fail.is_none() && is_terminal(&term) {
        check_state(&co, &sh, "at the end");
        let steps = sh.borrow().body_steps;
        let nrec = recs.borrow().len();
        for j in 0..c.extra_resumes {
            let r = std::panic::catch_unwind(std::panic::AssertUnwindSafe(|| co.resume()));
            let ok = match (&term, &r) {
                (CoroutineState::Complete(_) | CoroutineState::Error(_), Ok(Ok(s))) => s == &term,
                (CoroutineState::Cancelled, Ok(Err(_))) => true,
                (CoroutineState::Cancelled, Ok(Ok(s))) => s == &term,
                _ => false,
            };
            if !ok || sh.borrow().body_steps != steps || recs.borrow().len() != nrec || co.state() != term {
                sh.borrow_mut().fail(
                    "C07/raw/left-terminal-state",
                    format!("extra resume #{j} after {term:?}: result {r:?}, state now {:?}, body advanced: {}, new records: {}",
                        co.state(), sh.borrow().body_steps != steps, recs.borrow().len() - nrec),
                );
                break;
            }
        }
        if sh.borrow().fail.is_none() {
            do_running(&co, &sh, "after-end");
            if recs.borrow().len() != nrec {
                sh.borrow_mut().fail("C07/raw/left-terminal-state", format!("running() after {term:?} produced a record"));
            }
        }
    }
    // compare the recorded events with the predicted list
    let mut s = sh.borrow_mut();
    if s.fail.is_none() {
        let recs = recs.borrow();
        let mut i = 0;
        let mut got: Vec<(St, St)> = vec![];
        while i < recs.len() {
            match (&recs[i], recs.get(i + 1)) {
                (Rec::Changed(o, n, at), Some(Rec::Specific(k, o2))) => {
                    if *k != kind_name(n) || o2 != o {
                        s.fail(
                            "C07/raw/specific-callback-does-not-match-the-change",
                            format!("change {o:?}->{n:?} was followed by on_{k}(old={o2:?})"),
                        );
                        break;
                    }
                    if let Err(why) = edge_ok(o, n, *at) {
                        s.fail(&format!("C07/raw/{why}"), format!("recorded change {o:?}->{n:?}"));
                        break;
                    }
                    got.push((*o, *n));
                    i += 2;
                }
                (a, b) => {
                    s.fail(
                        "C07/raw/callbacks-not-paired-once-per-change",
                        format!("listener events #{i}: {a:?} then {b:?} (expected on_state_changed followed by exactly one specific callback)"),
                    );
                    break;
                }
            }
        }
        if s.fail.is_none() && got != s.expected {
            let k = got.iter().zip(s.expected.iter()).position(|(a, b)| a != b).unwrap_or(got.len().min(s.expected.len()));
            let sig = if got.len() > s.expected.len() && k == s.expected.len() {
                "C07/raw/extra-change-reported"
            } else if got.len() < s.expected.len() && k == got.len() {
                "C07/raw/change-not-reported"
            } else {
                "C07/raw/reported-change-differs-from-model"
            };
            let msg = format!(
                "at change #{k}: reported {:?}, documented state machine says {:?} ({} reported, {} expected)",
                got.get(k),
                s.expected.get(k),
                got.len(),
                s.expected.len()
            );
            s.fail(sig, msg);
        }
        if s.fail.is_none() {
            for w in got.windows(2) {
                if w[0].1 != w[1].0 {
                    s.fail("C07/raw/chain-broken", format!("{:?} then {:?}", w[0], w[1]));
                }
            }
        }
    }
    let nt = s.kinds.len() >= 4 && (illegal_generated >= 1 || s.syscall_cycles >= 1);
    let mut o = Outcome::pass()
        .nt(nt)
        .class_if(illegal_generated >= 1, "illegal-attempt")
        .class_if(s.limbo, "body-ended-inside-a-syscall-state")
        .class_if(s.syscall_cycles >= 1, "syscall-to-syscall")
        .class_if(s.kinds.contains("cancel"), "cancelled")
        .class_if(s.kinds.contains("error"), "error")
        .class_if(s.kinds.contains("complete"), "complete")
        .class_if(s.kinds.contains("suspend"), "suspend");
    if let Some((a, b)) = s.fail.take() {
        o.set_fail(a, b);
    }
    drop(s);
    drop(co);
    o
}

// ---------------------------------------------------------------------------------------

#[derive(Debug, Clone, Serialize, Deserialize)]
pub struct SchedCase {
    /// per coroutine: steps (0 = suspend, n>0 = delay n ms), then return
    pub cos: Vec<Vec<u8>>,
}

fn sched_case() -> impl Strategy<Value = SchedCase> {
    proptest::collection::vec(proptest::collection::vec(prop_oneof![2 => Just(0u8), 1 => 1u8..6], 0..5), 1..5)
        .prop_map(|cos| SchedCase { cos })
}

thread_local! {
    static SERIAL: RefCell<u64> = const { RefCell::new(0) };
}

#[derive(Debug)]
struct TagRecorder(Rc<RefCell<Vec<(String, Rec)>>>);
impl TagRecorder {
    fn push(&self, l: &CoroutineLocal, r: Rec) {
        let tag = l.get::<String>("tag").cloned().unwrap_or_default();
        self.0.borrow_mut().push((tag, r));
    }
}
impl Listener<(), Option<usize>> for TagRecorder {
    fn on_state_changed(&self, l: &CoroutineLocal, old: St, new: St) {
        self.push(l, Rec::Changed(old, new, now()));
    }
    fn on_ready(&self, l: &CoroutineLocal, old: St) {
        self.push(l, Rec::Specific("ready", old));
    }
    fn on_running(&self, l: &CoroutineLocal, old: St) {
        self.push(l, Rec::Specific("running", old));
    }
    fn on_suspend(&self, l: &CoroutineLocal, old: St) {
        self.push(l, Rec::Specific("suspend", old));
    }
    fn on_complete(&self, l: &CoroutineLocal, old: St, _: Option<usize>) {
        self.push(l, Rec::Specific("complete", old));
    }
}

pub fn exec_sched(c: &SchedCase) -> Outcome {
    let serial = SERIAL.with(|s| {
        *s.borrow_mut() += 1;
        *s.borrow()
    });
    let recs: Rc<RefCell<Vec<(String, Rec)>>> = Rc::default();
    let mut sch = Scheduler::new(format!("c07-sched-{serial}"), 128 * 1024);
    sch.add_listener(TagRecorder(recs.clone()));
    let mut total_delay = 0u64;
    for (i, steps) in c.cos.iter().enumerate() {
        let steps = steps.clone();
        total_delay += steps.iter().map(|x| u64::from(*x)).sum::<u64>();
        let co: Co<'static> = Coroutine::new(
            Some(format!("c07-{serial}-{i}")),
            move |s: &Suspender<(), ()>, ()| {
                for st in &steps {
                    if *st == 0 {
                        s.suspend();
                    } else {
                        s.delay(Duration::from_millis(u64::from(*st)));
                    }
                }
                Some(i)
            },
            None,
            None,
        )
        .expect("create");
        let _ = co.put("tag", format!("co{i}"));
        sch.submit_raw_co(co).expect("submit");
    }
    let deadline = std::time::Instant::now() + Duration::from_millis(2000 + total_delay * 3);
    let mut done = 0;
    while done < c.cos.len() && std::time::Instant::now() < deadline {
        let (_, r) = sch.try_timed_schedule(Duration::from_millis(20)).expect("schedule");
        done += r.len();
        if done < c.cos.len() {
            std::thread::sleep(Duration::from_millis(1));
        }
    }
    let finished = done == c.cos.len();
    if !finished {
        std::mem::forget(sch);
        return Outcome::fail("C07/sched/coroutines-did-not-finish", format!("{done} of {} finished", c.cos.len()));
    }
    drop(sch);
    let recs = recs.borrow();
    let mut o = Outcome::pass();
    let mut saw_ready = false;
    for i in 0..c.cos.len() {
        let tag = format!("co{i}");
        let mine: Vec<&Rec> = recs.iter().filter(|(t, _)| *t == tag).map(|(_, r)| r).collect();
        let mut last: Option<St> = None;
        let mut j = 0;
        while j < mine.len() {
            match (mine[j], mine.get(j + 1)) {
                (Rec::Changed(old, new, at), Some(Rec::Specific(k, o2))) => {
                    if *k != kind_name(new) || o2 != old {
                        o.set_fail("C07/sched/specific-callback-does-not-match-the-change", format!("{tag}: {old:?}->{new:?} then on_{k}({o2:?})"));
                    }
                    if let Err(why) = edge_ok(old, new, *at) {
                        o.set_fail(format!("C07/sched/{why}"), format!("{tag}: recorded change {old:?}->{new:?}"));
                    }
                    match last {
                        None if *old != CoroutineState::Ready => o.set_fail("C07/sched/first-change-not-from-ready", format!("{tag}: {old:?}")),
                        Some(l) if l != *old => o.set_fail("C07/sched/chain-broken", format!("{tag}: previous new {l:?}, next old {old:?}")),
                        _ => {}
                    }
                    if matches!(new, CoroutineState::Ready) {
                        saw_ready = true;
                    }
                    last = Some(*new);
                    j += 2;
                }
                (a, b) => {
                    o.set_fail("C07/sched/callbacks-not-paired-once-per-change", format!("{tag}: {a:?} then {b:?}"));
                    break;
                }
            }
        }
        if o.fail.is_none() && last != Some(CoroutineState::Complete(Some(i))) {
            o.set_fail("C07/sched/did-not-end-complete", format!("{tag}: last state {last:?}"));
        }
    }
    o.nontrivial = saw_ready && c.cos.len() >= 2;
    o.class_if(saw_ready, "suspend-to-ready")
}

pub fn replay(sub: &str, case: serde_json::Value) -> Outcome {
    match sub {
        "sched" => exec_sched(&serde_json::from_value(case).expect("case")),
        _ => exec_raw(&serde_json::from_value(case).expect("case")),
    }
}

pub fn main(args: &Args) -> i32 {
    std::panic::set_hook(Box::new(|_| {}));
    if let Some(p) = &args.replay {
        let (_, sub, case) = vkit::load_replay(p);
        return vkit::replay_verdict("C07", p, &replay(&sub, case));
    }
    let mut ev = Evidence::new("C07", args, "exploration");
    ev.assume("the reference model is the graph in the property statement / core/docs/en/coroutine.md; timing decisions keep a 2-4 ms margin around wake-up times and skip ambiguous ones");
    ev.add(vkit::run_regress("C07", replay));
    if ev.has_violations() {
        return ev.finish();
    }
    ev.add(vkit::run_prop(
        &RunCfg {
            property: "C07",
            sub: "raw",
            rule: "body script (suspend / until past|now|soon / syscall(name,state) legal and illegal / running() / cancel|panic|return) x driver script (early resume, running(), mark Callback|Timeout, plain) interpreted against the documented state machine; non-trivial = >=4 distinct state kinds and (>=1 generated illegal attempt or >=1 syscall->syscall change)",
            seed: args.seed,
            cases: args.cases(4_000, 150_000),
            shards: 16,
            max_shrink_iters: 3000,
        },
        strategy,
        exec_raw,
    ));
    ev.add(vkit::run_prop(
        &RunCfg {
            property: "C07",
            sub: "sched",
            rule: "1..4 coroutines of suspend/delay steps run by one Scheduler with a tagging listener; validity of every recorded change; non-trivial = a Suspend->Ready change was observed with >=2 coroutines",
            seed: args.seed,
            cases: args.cases(150, 4_000),
            shards: 1,
            max_shrink_iters: 300,
        },
        sched_case,
        exec_sched,
    ));
    ev.finish()
}

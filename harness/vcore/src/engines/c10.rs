//! C10 — the scheduler completes each coroutine once and honours delays and cancels.
//!
//! Case: 1..8 coroutine programs (suspend / delay d ms / panic / return v, with a priority)
//! and a driver script (timed pass, untimed pass, sleep, cancel i). Bodies log every step
//! with the time they observed.
//! Oracle: each finished coroutine's result appears in exactly one pass's map under the id
//! `submit_co` returned, with its own value / message; a step after `until(ts)` never runs
//! before ts; a pass that starts at or after ts and returns because the ready queue ran dry
//! has resumed it; after `Cancel(i)` coroutine i logs nothing more and everybody else still
//! finishes with their own result.

use open_coroutine_core::common::now;
use open_coroutine_core::coroutine::suspender::Suspender;
use open_coroutine_core::scheduler::Scheduler;
use proptest::prelude::*;
use serde::{Deserialize, Serialize};
use std::cell::RefCell;
use std::collections::HashMap;
use std::rc::Rc;
use std::time::Duration;
use vkit::{pick, Args, Evidence, Outcome, RunCfg};

#[derive(Debug, Clone, Copy, Serialize, Deserialize, PartialEq)]
pub enum Step {
    Suspend,
    Delay(u8),
    /// cancel another coroutine (monotone index) from inside the running pass
    CancelOther(u16),
}

#[derive(Debug, Clone, Copy, Serialize, Deserialize, PartialEq)]
pub enum End {
    Return(u16),
    Panic,
}

#[derive(Debug, Clone, Serialize, Deserialize)]
pub struct Prog {
    pub steps: Vec<Step>,
    pub end: End,
    pub prio: Option<i8>,
}

#[derive(Debug, Clone, Copy, Serialize, Deserialize, PartialEq)]
pub enum Drv {
    TimedPass(u8),
    Pass,
    Sleep(u8),
    Cancel(u16),
}

#[derive(Debug, Clone, Serialize, Deserialize)]
pub struct Case {
    pub cos: Vec<Prog>,
    pub driver: Vec<Drv>,
}

pub fn strategy() -> impl Strategy<Value = Case> {
    let prog = (
        proptest::collection::vec(prop_oneof![6 => Just(Step::Suspend), 4 => (1u8..25).prop_map(Step::Delay), 1 => any::<u16>().prop_map(Step::CancelOther)], 0..5),
        prop_oneof![4 => any::<u16>().prop_map(End::Return), 1 => Just(End::Panic)],
        prop_oneof![2 => Just(None), 3 => (-2i8..3).prop_map(Some)],
    )
        .prop_map(|(steps, end, prio)| Prog { steps, end, prio });
    (
        proptest::collection::vec(prog, 1..=8),
        proptest::collection::vec(
            prop_oneof![
                3 => (1u8..20).prop_map(Drv::TimedPass),
                3 => Just(Drv::Pass),
                3 => (0u8..15).prop_map(Drv::Sleep),
                1 => any::<u16>().prop_map(Drv::Cancel),
            ],
            0..16,
        ),
    )
        .prop_map(|(cos, driver)| Case { cos, driver })
}

#[derive(Debug, Clone)]
struct LogEv {
    co: usize,
    /// index of the step about to be executed (steps.len() = the end)
    step: usize,
    at: u64,
    /// wake-up time requested by the previous step, if it was a delay
    due: Option<u64>,
}

thread_local! {
    static SERIAL: RefCell<u64> = const { RefCell::new(0) };
}

pub fn exec(c: &Case) -> Outcome {
    let serial = SERIAL.with(|s| {
        *s.borrow_mut() += 1;
        *s.borrow()
    });
    let log: Rc<RefCell<Vec<LogEv>>> = Rc::default();
    // pending[co] = Some(ts) while the coroutine waits for a wake-up time
    let pending: Rc<RefCell<Vec<Option<u64>>>> = Rc::new(RefCell::new(vec![None; c.cos.len()]));
    let mut sch = Scheduler::new(format!("c10-{serial}"), 64 * 1024);
    let mut ids = vec![];
    // shared with the bodies: ids (filled after submission), results seen so far, cancel marks
    let shared_ids: Rc<RefCell<Vec<u64>>> = Rc::default();
    let finished_flags: Rc<RefCell<Vec<bool>>> = Rc::new(RefCell::new(vec![false; c.cos.len()]));
    let cancelled_sh: Rc<RefCell<Vec<Option<usize>>>> = Rc::new(RefCell::new(vec![None; c.cos.len()]));
    let inner_cancels: Rc<RefCell<u32>> = Rc::default();
    for (i, p) in c.cos.iter().enumerate() {
        let p = p.clone();
        let log = log.clone();
        let pending = pending.clone();
        let (shared_ids, finished_flags, cancelled_sh, inner_cancels) = (shared_ids.clone(), finished_flags.clone(), cancelled_sh.clone(), inner_cancels.clone());
        let ncos = c.cos.len();
        let id = sch
            .submit_co(
                move |s: &Suspender<(), ()>, ()| {
                    let mut due = None;
                    for (k, st) in p.steps.iter().enumerate() {
                        log.borrow_mut().push(LogEv { co: i, step: k, at: now(), due });
                        pending.borrow_mut()[i] = None;
                        match st {
                            Step::Suspend => {
                                due = None;
                                s.suspend();
                            }
                            Step::Delay(ms) => {
                                let ts = now() + u64::from(*ms) * 1_000_000;
                                due = Some(ts);
                                pending.borrow_mut()[i] = Some(ts);
                                s.until(ts);
                            }
                            Step::CancelOther(ix) => {
                                due = None;
                                let j = pick(*ix, ncos);
                                // only a coroutine that is neither running (that is us), finished
                                // nor already cancelled
                                if j != i && !finished_flags.borrow()[j] && cancelled_sh.borrow()[j].is_none() {
                                    let n = log.borrow().iter().filter(|e| e.co == j).count();
                                    Scheduler::try_cancel_coroutine(shared_ids.borrow()[j]);
                                    cancelled_sh.borrow_mut()[j] = Some(n);
                                    pending.borrow_mut()[j] = None;
                                    *inner_cancels.borrow_mut() += 1;
                                }
                            }
                        }
                    }
                    log.borrow_mut().push(LogEv { co: i, step: p.steps.len(), at: now(), due });
                    pending.borrow_mut()[i] = None;
                    finished_flags.borrow_mut()[i] = true;
                    match p.end {
                        End::Return(v) => Some(v as usize),
                        End::Panic => panic!("c10 panic of coroutine #{i}"),
                    }
                },
                None,
                p.prio.map(i64::from),
            )
            .expect("submit_co");
        ids.push(id);
    }
    *shared_ids.borrow_mut() = ids.clone();
    let mut o = Outcome::pass();
    let mut results: HashMap<u64, Result<Option<usize>, String>> = HashMap::new();
    // log length of each coroutine at the time it was cancelled (driver- or body-issued)
    macro_rules! cancelled {
        () => {
            cancelled_sh.borrow().clone()
        };
    }
    let mut spanning_delay = false;
    let mut cancels = 0;
    let finished = |results: &HashMap<u64, Result<Option<usize>, String>>, cancelled: &Vec<Option<usize>>| -> bool {
        (0..c.cos.len()).all(|i| cancelled[i].is_some() || results.contains_key(&ids[i]))
    };
    let do_pass = |sch: &mut Scheduler<'_>, timed: Option<u8>, o: &mut Outcome, results: &mut HashMap<u64, Result<Option<usize>, String>>| {
        let start = now();
        let waiting_before: Vec<Option<u64>> = pending.borrow().clone();
        let log_len_before = log.borrow().len();
        let (left, res) = match timed {
            Some(ms) => sch.try_timed_schedule(Duration::from_millis(u64::from(ms))).expect("pass"),
            None => (u64::MAX, sch.try_schedule().expect("pass")),
        };
        for (id, r) in res {
            if results.insert(id, r.map_err(str::to_string)).is_some() {
                o.set_fail("C10/result-reported-twice", format!("id {id} appeared in two passes"));
            }
            if !ids.contains(&id) {
                o.set_fail("C10/result-under-unknown-id", format!("id {id} was never returned by submit_co"));
            }
        }
        // a pass that ran dry must have resumed every coroutine that was due at its start
        if left > 0 {
            for (i, w) in waiting_before.iter().enumerate() {
                if let Some(ts) = w {
                    if *ts <= start && cancelled_sh.borrow()[i].is_none() {
                        let resumed = log.borrow()[log_len_before..].iter().any(|e| e.co == i);
                        if !resumed {
                            o.set_fail(
                                "C10/due-coroutine-not-resumed-by-a-pass-that-ran-dry",
                                format!("coroutine #{i} was due at {ts}, the pass started at {start} and returned with time left ({left} ns) without resuming it"),
                            );
                        }
                    } else if *ts > start {
                        // the delay spans this pass boundary
                    }
                }
            }
        }
        if waiting_before.iter().any(|w| w.is_some_and(|ts| ts > start)) {
            true
        } else {
            false
        }
    };
    for d in &c.driver {
        if o.fail.is_some() {
            break;
        }
        match *d {
            Drv::TimedPass(ms) => spanning_delay |= do_pass(&mut sch, Some(ms), &mut o, &mut results),
            Drv::Pass => spanning_delay |= do_pass(&mut sch, None, &mut o, &mut results),
            Drv::Sleep(ms) => std::thread::sleep(Duration::from_millis(u64::from(ms))),
            Drv::Cancel(ix) => {
                let i = pick(ix, c.cos.len());
                if cancelled!()[i].is_none() && !results.contains_key(&ids[i]) {
                    Scheduler::try_cancel_coroutine(ids[i]);
                    let n = log.borrow().iter().filter(|e| e.co == i).count();
                    cancelled_sh.borrow_mut()[i] = Some(n);
                    pending.borrow_mut()[i] = None;
                    cancels += 1;
                }
            }
        }
    }
    // epilogue: let everything finish so that Scheduler::drop's own assertions never fire
    let mut rounds = 0;
    while o.fail.is_none() && rounds < 60 {
        rounds += 1;
        let _ = do_pass(&mut sch, None, &mut o, &mut results);
        let waiting = pending.borrow().iter().any(|w| w.is_some());
        if finished(&results, &cancelled!()) && !waiting {
            break;
        }
        std::thread::sleep(Duration::from_millis(3));
    }
    // one more settle for cancelled coroutines still parked in the timer heap
    std::thread::sleep(Duration::from_millis(26));
    let _ = do_pass(&mut sch, None, &mut o, &mut results);
    let cancelled = cancelled!();
    cancels += *inner_cancels.borrow();
    if o.fail.is_none() && !finished(&results, &cancelled) {
        let missing: Vec<usize> = (0..c.cos.len()).filter(|i| cancelled[*i].is_none() && !results.contains_key(&ids[*i])).collect();
        o.set_fail("C10/coroutine-never-finished", format!("coroutines {missing:?} never produced a result although the scheduler kept being driven"));
    }
    if o.fail.is_some() {
        std::mem::forget(sch);
    } else {
        let r = std::panic::catch_unwind(std::panic::AssertUnwindSafe(move || drop(sch)));
        if r.is_err() {
            o.set_fail("C10/scheduler-drop-found-leftover-coroutines", "Scheduler::drop asserted that a queue is not empty");
        }
    }
    // post-hoc checks on the log
    let lg = log.borrow();
    if o.fail.is_none() {
        for e in lg.iter() {
            if let Some(ts) = e.due {
                if e.at < ts {
                    o.set_fail(
                        "C10/resumed-before-wake-up-time",
                        format!("coroutine #{} step {} ran at {} although it asked to sleep until {}", e.co, e.step, e.at, ts),
                    );
                }
            }
        }
        for (i, p) in c.cos.iter().enumerate() {
            let mine: Vec<&LogEv> = lg.iter().filter(|e| e.co == i).collect();
            for (k, e) in mine.iter().enumerate() {
                if e.step != k {
                    o.set_fail("C10/step-executed-twice-or-skipped", format!("coroutine #{i}: log position {k} holds step {}", e.step));
                }
            }
            match cancelled[i] {
                Some(n) => {
                    if mine.len() > n {
                        o.set_fail(
                            "C10/cancelled-coroutine-resumed-again",
                            format!("coroutine #{i} was cancelled after {n} logged steps but logged {} in total", mine.len()),
                        );
                    }
                    if results.contains_key(&ids[i]) && mine.len() <= p.steps.len() {
                        o.set_fail("C10/cancelled-coroutine-reported-a-result", format!("coroutine #{i}"));
                    }
                }
                None => {
                    let want: Result<Option<usize>, String> = match p.end {
                        End::Return(v) => Ok(Some(v as usize)),
                        End::Panic => Err(format!("c10 panic of coroutine #{i}")),
                    };
                    match results.get(&ids[i]) {
                        Some(got) if *got == want => {}
                        Some(Err(m)) if matches!(p.end, End::Panic) && m.contains(&format!("c10 panic of coroutine #{i}")) => {}
                        other => o.set_fail(
                            "C10/wrong-result-for-coroutine",
                            format!("coroutine #{i} (id {}) should report {want:?}, the passes reported {other:?}", ids[i]),
                        ),
                    }
                    if mine.len() != p.steps.len() + 1 {
                        o.set_fail("C10/coroutine-did-not-run-all-steps-once", format!("coroutine #{i}: {} of {} log entries", mine.len(), p.steps.len() + 1));
                    }
                }
            }
        }
    }
    o.nontrivial = c.cos.len() >= 2 && (spanning_delay || cancels >= 1);
    let inner_n = *inner_cancels.borrow();
    o.class_if(spanning_delay, "delay-spans-a-pass-boundary")
        .class_if(cancels >= 1, "cancel")
        .class_if(inner_n >= 1, "cancel-issued-inside-a-pass")
        .class_if(c.cos.iter().any(|p| p.end == End::Panic), "panic")
}

pub fn main(args: &Args) -> i32 {
    std::panic::set_hook(Box::new(|_| {}));
    if let Some(p) = &args.replay {
        let (_, _, case) = vkit::load_replay(p);
        return vkit::replay_verdict("C10", p, &exec(&serde_json::from_value(case).expect("case")));
    }
    let mut ev = Evidence::new("C10", args, "exploration");
    ev.assume("one Scheduler alive per process at a time (all schedulers share one process-wide ready queue); cancels are issued between passes (the coroutine is not running)");
    ev.assume("'resumed by the first pass at or after the wake-up time' is judged only for passes that return with time left (a pass cut by its own time limit promises nothing)");
    ev.add(vkit::run_regress("C10", |_s, case| exec(&serde_json::from_value(case).expect("case"))));
    if ev.has_violations() {
        return ev.finish();
    }
    ev.add(vkit::run_prop(
        &RunCfg {
            property: "C10",
            sub: "scheduler",
            rule: "1..8 coroutine programs (suspend / delay 1..24 ms / panic / return, priorities) x driver script (timed pass, untimed pass, sleep, cancel); non-trivial = >=2 coroutines and (a delay spans a pass boundary or a cancel was issued)",
            seed: args.seed,
            cases: args.cases(250, 8_000),
            shards: 1,
            max_shrink_iters: 400,
        },
        strategy,
        exec,
    ));
    ev.finish()
}

pub mod c28;

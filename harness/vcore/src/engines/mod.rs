pub mod c05;
pub mod c06;
pub mod c07;
pub mod c08;
pub mod c09;
pub mod c28;
pub mod qreal;

pub mod c05;
pub mod c06;
pub mod c28;
pub mod qreal;

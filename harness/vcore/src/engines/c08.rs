//! C08 — values and panics cross the coroutine boundary faithfully.
//!
//! Case: a `Coroutine<u64,u64,u64>` whose body performs k generated yields (plain or with a
//! wake-up time in the past) and then returns r or panics (payload &'static str / String /
//! other) at a generated step; optional listeners that panic inside chosen callbacks;
//! extra resumes after the end.
//! Oracle: the body sees exactly the resume arguments, in order; each resume reports exactly
//! the value (and timestamp) of the yield it ended at; completion is reported once with r
//! and is sticky; a panic becomes `Error(message)` carrying the panic message and never
//! unwinds into the caller; a panicking listener changes none of this.

use open_coroutine_core::common::constants::CoroutineState;
use open_coroutine_core::coroutine::listener::Listener;
use open_coroutine_core::coroutine::local::CoroutineLocal;
use open_coroutine_core::coroutine::suspender::Suspender;
use open_coroutine_core::coroutine::Coroutine;
use proptest::prelude::*;
use serde::{Deserialize, Serialize};
use std::cell::RefCell;
use std::rc::Rc;
use vkit::{Args, Evidence, Outcome, RunCfg};

#[derive(Debug, Clone, Serialize, Deserialize, PartialEq)]
pub enum End {
    Return(u64),
    PanicStatic,
    /// `panic!("...{}", n)` — a formatted (String) payload, the commonest kind
    PanicFormatted(u32),
    /// formatted payload of generated length and alphabet: (fill kind, byte length, offset)
    PanicLong(u8, u16, u8),
    /// `panic_any(17u8)` — no message to carry
    PanicOther,
}

#[derive(Debug, Clone, Serialize, Deserialize)]
pub struct Case {
    /// (yielded value, Some(ts) = until_with(ts) with ts in the past)
    pub yields: Vec<(u64, Option<u16>)>,
    /// the body ends (returns/panics) instead of performing yield #end_at (clamped)
    pub end_at: u16,
    pub end: End,
    /// resume arguments p0..pk (missing ones default to index)
    pub params: Vec<u64>,
    /// bitmask: which listener callbacks panic (bit0 state_changed, 1 running, 2 suspend, 3 complete, 4 error)
    pub listener_panics: u8,
    pub extra_resumes: u8,
    pub stack_kb: u8,
}

fn val() -> impl Strategy<Value = u64> {
    prop_oneof![3 => any::<u64>(), 1 => Just(0u64), 1 => Just(u64::MAX), 1 => Just(1u64), 2 => 0u64..16]
}

pub fn strategy() -> impl Strategy<Value = Case> {
    (
        proptest::collection::vec((val(), prop_oneof![3 => Just(None), 1 => (1u16..1000).prop_map(Some)]), 0..40),
        any::<u16>(),
        prop_oneof![
            4 => val().prop_map(End::Return),
            2 => Just(End::PanicStatic),
            2 => any::<u32>().prop_map(End::PanicFormatted),
            2 => (0u8..4, prop_oneof![2 => 0u16..300, 2 => 900u16..1200, 1 => 1200u16..9000, 1 => Just(4095u16), 1 => Just(4096u16), 1 => Just(4097u16)], 0u8..4).prop_map(|(a, b, c)| End::PanicLong(a, b, c)),
            1 => Just(End::PanicOther),
        ],
        proptest::collection::vec(val(), 0..42),
        prop_oneof![3 => Just(0u8), 1 => 0u8..32],
        0u8..3,
        prop_oneof![Just(64u8), Just(128u8)],
    )
        .prop_map(|(yields, end_at, end, params, listener_panics, extra_resumes, stack_kb)| Case {
            yields,
            end_at,
            end,
            params,
            listener_panics,
            extra_resumes,
            stack_kb,
        })
}

#[derive(Debug, Default)]
struct Counts {
    complete: u32,
    error: u32,
    state_changed: u32,
}

#[derive(Debug)]
struct PanickyListener {
    mask: u8,
    counts: Rc<RefCell<Counts>>,
}

impl Listener<u64, u64> for PanickyListener {
    fn on_state_changed(&self, _: &CoroutineLocal, _: CoroutineState<u64, u64>, _: CoroutineState<u64, u64>) {
        self.counts.borrow_mut().state_changed += 1;
        if self.mask & 1 != 0 {
            panic!("listener on_state_changed panics on purpose");
        }
    }
    fn on_running(&self, _: &CoroutineLocal, _: CoroutineState<u64, u64>) {
        if self.mask & 2 != 0 {
            panic!("listener on_running panics on purpose");
        }
    }
    fn on_suspend(&self, _: &CoroutineLocal, _: CoroutineState<u64, u64>) {
        if self.mask & 4 != 0 {
            panic!("{}", format!("listener on_suspend panics with a formatted message {}", 7));
        }
    }
    fn on_complete(&self, _: &CoroutineLocal, _: CoroutineState<u64, u64>, _: u64) {
        self.counts.borrow_mut().complete += 1;
        if self.mask & 8 != 0 {
            panic!("listener on_complete panics on purpose");
        }
    }
    fn on_error(&self, _: &CoroutineLocal, _: CoroutineState<u64, u64>, _: &str) {
        self.counts.borrow_mut().error += 1;
        if self.mask & 16 != 0 {
            panic!("listener on_error panics on purpose");
        }
    }
}

const STATIC_MSG: &str = "c08 static panic message";

/// the generated long message: `off` ASCII bytes, then the fill character repeated up to
/// about `len` bytes (multi-byte characters make byte offsets fall inside a character)
fn long_msg(kind: u8, len: u16, off: u8) -> String {
    let fill = ["a", "\u{e9}", "\u{65e5}", "\u{1f600}"][kind as usize % 4];
    let mut m = "x".repeat(off as usize);
    while m.len() + fill.len() <= len as usize {
        m.push_str(fill);
    }
    m
}

pub fn exec(c: &Case) -> Outcome {
    let k_total = c.yields.len();
    let end_at = (c.end_at as usize * (k_total + 1)) >> 16; // 0..=k_total, monotone
    let yields: Vec<(u64, Option<u16>)> = c.yields[..end_at].to_vec();
    let k = yields.len();
    let params: Vec<u64> = (0..=k).map(|i| c.params.get(i).copied().unwrap_or(i as u64 ^ 0xabcd)).collect();
    let seen: Rc<RefCell<Vec<u64>>> = Rc::default();
    let counts: Rc<RefCell<Counts>> = Rc::default();
    let end = c.end.clone();
    let body_yields = yields.clone();
    let body_seen = seen.clone();
    let mut co: Coroutine<'_, u64, u64, u64> = Coroutine::new(
        None,
        move |s: &Suspender<u64, u64>, p0: u64| {
            body_seen.borrow_mut().push(p0);
            for (y, ts) in &body_yields {
                let p = match ts {
                    None => s.suspend_with(*y),
                    Some(t) => s.until_with(*y, u64::from(*t)),
                };
                body_seen.borrow_mut().push(p);
            }
            match end {
                End::Return(r) => r,
                End::PanicStatic => panic!("c08 static panic message"),
                End::PanicFormatted(n) => panic!("c08 formatted panic message #{n}"),
                End::PanicLong(a, b, c) => panic!("{}", long_msg(a, b, c)),
                End::PanicOther => std::panic::panic_any(17u8),
            }
        },
        Some(c.stack_kb.max(64) as usize * 1024),
        None,
    )
    .expect("create coroutine");
    co.add_listener(PanickyListener { mask: c.listener_panics, counts: counts.clone() });

    let nt = k >= 3 || (k >= 1 && !matches!(c.end, End::Return(_))) || c.listener_panics != 0;
    let mut o = Outcome::pass()
        .nt(nt)
        .class_if(k >= 3, "3+yields")
        .class_if(matches!(c.end, End::PanicStatic), "panic-static-str")
        .class_if(matches!(c.end, End::PanicFormatted(_) | End::PanicLong(..)), "panic-formatted-string")
        .class_if(matches!(c.end, End::PanicLong(_, l, _) if l > 1000), "panic-message-over-1000-bytes")
        .class_if(matches!(c.end, End::PanicOther), "panic-other-payload")
        .class_if(c.listener_panics != 0, "panicking-listener")
        .class_if(yields.iter().any(|y| y.1.is_some()), "timed-yield");

    for i in 0..=k {
        let r = std::panic::catch_unwind(std::panic::AssertUnwindSafe(|| co.resume_with(params[i])));
        let r = match r {
            Ok(r) => r,
            Err(_) => {
                o.set_fail("C08/resume/panic-unwound-into-caller", format!("resume #{i} unwound a panic into the resumer"));
                return o;
            }
        };
        let r = match r {
            Ok(s) => s,
            Err(e) => {
                o.set_fail("C08/resume/unexpected-io-error", format!("resume #{i} returned Err({e})"));
                return o;
            }
        };
        if seen.borrow().len() != i + 1 || seen.borrow()[i] != params[i] {
            o.set_fail(
                "C08/resume/body-did-not-receive-the-resume-argument",
                format!("resume #{i} passed {} but the body has seen {:?}", params[i], seen.borrow()),
            );
            return o;
        }
        if i < k {
            let (y, ts) = yields[i];
            let want = CoroutineState::Suspend(y, ts.map_or(0, u64::from));
            if r != want {
                let kind = match r {
                    CoroutineState::Suspend(yy, _) if yy != y => "wrong-yield-value",
                    CoroutineState::Suspend(..) => "wrong-timestamp",
                    _ => "wrong-state",
                };
                o.set_fail(format!("C08/yield/{kind}"), format!("resume #{i}: expected {want:?}, got {r:?}"));
                return o;
            }
        } else {
            match (&c.end, r) {
                (End::Return(want), CoroutineState::Complete(got)) if *want == got => {}
                (End::PanicStatic, CoroutineState::Error(m)) => {
                    if m != STATIC_MSG {
                        o.set_fail("C08/panic/static-str-message-lost", format!("expected {STATIC_MSG:?}, got {m:?}"));
                        return o;
                    }
                }
                (End::PanicFormatted(n), CoroutineState::Error(m)) => {
                    let want = format!("c08 formatted panic message #{n}");
                    if !m.contains(&want) {
                        o.set_fail(
                            "C08/panic/string-payload-message-lost",
                            format!("body panicked with the formatted message {want:?}; reported message is {m:?}"),
                        );
                        return o;
                    }
                }
                (End::PanicLong(a, b, cc), CoroutineState::Error(m)) => {
                    let want = long_msg(*a, *b, *cc);
                    if m != want {
                        o.set_fail(
                            "C08/panic/long-message-altered",
                            format!("body panicked with a {}-byte message, the reported message has {} bytes (first difference at byte {})",
                                want.len(), m.len(), want.bytes().zip(m.bytes()).position(|(x, y)| x != y).unwrap_or(want.len().min(m.len()))),
                        );
                        return o;
                    }
                }
                (End::PanicOther, CoroutineState::Error(_)) => {}
                (e, r) => {
                    o.set_fail("C08/end/wrong-terminal-state", format!("body ended with {e:?}, resume reported {r:?}"));
                    return o;
                }
            }
            let terminal = r;
            // sticky terminal state, no user code, completion reported exactly once
            for j in 0..c.extra_resumes {
                let again = std::panic::catch_unwind(std::panic::AssertUnwindSafe(|| co.resume_with(0xdead)));
                match again {
                    Ok(Ok(s)) if s == terminal => {}
                    other => {
                        o.set_fail(
                            "C08/end/terminal-state-not-sticky",
                            format!("extra resume #{j} after {terminal:?} gave {other:?}"),
                        );
                        return o;
                    }
                }
                if seen.borrow().len() != k + 1 {
                    o.set_fail("C08/end/user-code-ran-after-the-end", format!("body log grew to {:?}", seen.borrow()));
                    return o;
                }
            }
            let cn = counts.borrow();
            let (wc, we) = if matches!(c.end, End::Return(_)) { (1, 0) } else { (0, 1) };
            if cn.complete != wc || cn.error != we {
                o.set_fail(
                    "C08/end/completion-not-reported-exactly-once",
                    format!("on_complete x{}, on_error x{} (expected {wc}/{we})", cn.complete, cn.error),
                );
                return o;
            }
        }
    }
    drop(co);
    o
}

pub fn main(args: &Args) -> i32 {
    // the bodies panic on purpose: keep stderr quiet
    std::panic::set_hook(Box::new(|_| {}));
    if let Some(p) = &args.replay {
        let (_, _, case) = vkit::load_replay(p);
        let c: Case = serde_json::from_value(case).expect("case");
        return vkit::replay_verdict("C08", p, &exec(&c));
    }
    let mut ev = Evidence::new("C08", args, "exploration");
    ev.assume("one coroutine at a time per thread; the resumer is a plain thread");
    ev.assume("a panic payload that is neither &str nor String has no message to carry: only Error(_) is required");
    ev.add(vkit::run_regress("C08", |_s, case| exec(&serde_json::from_value(case).expect("case"))));
    if ev.has_violations() {
        return ev.finish();
    }
    let cfg = RunCfg {
        property: "C08",
        sub: "boundary",
        rule: "Coroutine<u64,u64,u64> bodies with 0..40 yields (plain or timed-in-the-past) over all of u64, return or panic (&'static str | formatted String | other payload) at a generated step, optional panicking listener callbacks, 0..2 extra resumes; non-trivial = >=3 yields, or a panic after >=1 yield, or a panicking listener",
        seed: args.seed,
        cases: args.cases(8_000, 300_000),
        shards: 8,
        max_shrink_iters: 4000,
    };
    ev.add(vkit::run_prop(&cfg, strategy, exec));
    ev.finish()
}

//! C27 — io_uring completions reach the call that submitted them (binary built with the
//! `io_uring` feature of open-coroutine-core).
//!
//! Case (fresh child): 1..2 event loops, 2..6 actors (task | plain thread) that run
//! concurrently, each executing 1..4 hooked calls one after the other, every call on its
//! own descriptor: recv/read of a payload unique to (actor, call) that the harness writes
//! `delay` ms after the call began, send/write of a unique payload, recv at end-of-stream,
//! send to a closed peer (EPIPE), recv on a bad descriptor (EBADF), sendto on a datagram
//! pair and on a non-socket (ENOTSOCK), a recv that runs into its
//! SO_RCVTIMEO followed by a second recv on the same socket after data arrived, and
//! pwrite + pread on a temporary file.
//! Oracle: every call returns the byte count and exactly the data of its own descriptor; a
//! kernel error is -1 with that errno; a buffer is not written to after its call has
//! returned; no call is still open 5 s after its data was provably there; no abort.

use libc::c_int;
use open_coroutine_core::config::Config;
use open_coroutine_core::net::EventLoops;
use open_coroutine_core::syscall as hooked;
use proptest::prelude::*;
use serde::{Deserialize, Serialize};
use serde_json::{json, Value};
use std::sync::atomic::{AtomicU64, Ordering};
use std::sync::{Arc, Mutex};
use std::time::{Duration, Instant};
use vkit::child::{self, ChildSpec, End};
use vkit::{Args, Evidence, Outcome, RunCfg};

#[derive(Debug, Clone, Copy, Serialize, Deserialize, PartialEq)]
pub enum Call {
    Recv { len: u8, delay_ms: u8 },
    Read { len: u8, delay_ms: u8 },
    Send { len: u8 },
    Write { len: u8 },
    RecvEof { delay_ms: u8 },
    SendClosedPeer { len: u8 },
    RecvBadFd,
    /// SO_RCVTIMEO = 20 ms on an idle socket: recv #1 must fail; then the harness writes
    /// `len` bytes and recv #2 on the same socket must return exactly them
    RecvTimeoutThenData { len: u8 },
    PwritePread { len: u8, off: u8 },
    /// sendto of a UDP datagram over loopback to a receiver of this call's own
    Sendto { len: u8 },
    /// sendto on a descriptor that is not a socket: -1 with ENOTSOCK
    SendtoNotSocket { len: u8 },
}

#[derive(Debug, Clone, Serialize, Deserialize)]
pub struct Actor {
    pub in_task: bool,
    pub calls: Vec<Call>,
}

#[derive(Debug, Clone, Serialize, Deserialize)]
pub struct Case {
    pub loops: u8,
    pub actors: Vec<Actor>,
}

/// `with_timeout_shape`: generate the timeout-then-data call (it runs into a listed known
/// finding that aborts the process, so it gets a small sub-run of its own and is kept out of
/// the main one, where it would swallow 40 % of the cases)
pub fn strategy(with_timeout_shape: bool) -> impl Strategy<Value = Case> {
    let call = prop_oneof![
        4 => (1u8..120, 0u8..25).prop_map(|(len, delay_ms)| Call::Recv { len, delay_ms }),
        3 => (1u8..120, 0u8..25).prop_map(|(len, delay_ms)| Call::Read { len, delay_ms }),
        3 => (1u8..120).prop_map(|len| Call::Send { len }),
        2 => (1u8..120).prop_map(|len| Call::Write { len }),
        2 => (0u8..15).prop_map(|delay_ms| Call::RecvEof { delay_ms }),
        2 => (1u8..60).prop_map(|len| Call::SendClosedPeer { len }),
        2 => Just(Call::RecvBadFd),
        2 => (1u8..60).prop_map(move |len| if with_timeout_shape { Call::RecvTimeoutThenData { len } } else { Call::Recv { len, delay_ms: 12 } }),
        2 => (1u8..120, 0u8..50).prop_map(|(len, off)| Call::PwritePread { len, off }),
        3 => (1u8..120).prop_map(|len| Call::Sendto { len }),
        1 => (1u8..60).prop_map(|len| Call::SendtoNotSocket { len }),
    ];
    (1u8..=2, proptest::collection::vec((any::<bool>(), proptest::collection::vec(call, 1..5)).prop_map(|(in_task, calls)| Actor { in_task, calls }), 2..7)).prop_map(|(loops, mut actors)| {
        // the timeout-then-data shape is generated for task callers only: a plain thread
        // whose receive goes through io_uring waits for the completion without any limit
        // (its SO_RCVTIMEO is not applied), which is the business of the timeout
        // properties, not of completion routing
        for a in &mut actors {
            if !a.in_task {
                for c in &mut a.calls {
                    if let Call::RecvTimeoutThenData { len } = *c {
                        *c = Call::Recv { len, delay_ms: 20 };
                    }
                }
            }
        }
        Case { loops, actors }
    })
}

fn payload(a: usize, k: usize, len: usize) -> Vec<u8> {
    (0..len).map(|i| ((a * 37 + k * 11 + i * 7 + 1) % 251) as u8 + 1).collect()
}

fn pair() -> (c_int, c_int) {
    let mut p = [0 as c_int; 2];
    unsafe {
        assert_eq!(0, libc::socketpair(libc::AF_UNIX, libc::SOCK_STREAM, 0, p.as_mut_ptr()));
    }
    (p[0], p[1])
}

fn errno() -> c_int {
    unsafe { *libc::__errno_location() }
}

const SENT: u8 = 0xEE;

struct Out {
    lines: Mutex<Vec<Value>>,
}

fn run_actor(a: usize, calls: &[Call], out: &Out) {
    for (k, c) in calls.iter().copied().enumerate() {
        child::emit(json!({"ev":"start","k":format!("{a}.{k}")}));
        let t = Instant::now();
        let mut buf = vec![SENT; 160];
        let rec = match c {
            Call::Recv { len, delay_ms } | Call::Read { len, delay_ms } => {
                let (fd, peer) = pair();
                let data = payload(a, k, usize::from(len));
                let d2 = data.clone();
                let w = std::thread::spawn(move || {
                    std::thread::sleep(Duration::from_millis(u64::from(delay_ms)));
                    unsafe { libc::send(peer, d2.as_ptr().cast(), d2.len(), libc::MSG_NOSIGNAL) };
                });
                let r = if matches!(c, Call::Recv { .. }) { hooked::recv(None, fd, buf.as_mut_ptr().cast(), 150, 0) } else { hooked::read(None, fd, buf.as_mut_ptr().cast(), 150) };
                let e = errno();
                let _ = w.join();
                let ok = r == data.len() as isize && buf[..data.len()] == data[..] && buf[data.len()..].iter().all(|b| *b == SENT);
                json!({"ok":ok,"ret":r,"errno":e,"want":data.len(),"what":"the payload of this call's own descriptor"})
            }
            Call::Send { len } | Call::Write { len } => {
                let (fd, peer) = pair();
                let data = payload(a, k, usize::from(len));
                let r = if matches!(c, Call::Send { .. }) { hooked::send(None, fd, data.as_ptr().cast(), data.len(), libc::MSG_NOSIGNAL) } else { hooked::write(None, fd, data.as_ptr().cast(), data.len()) };
                let e = errno();
                let mut got = vec![0u8; 200];
                let n = unsafe { libc::recv(peer, got.as_mut_ptr().cast(), 200, libc::MSG_DONTWAIT) };
                let ok = r == data.len() as isize && n == data.len() as isize && got[..data.len()] == data[..];
                json!({"ok":ok,"ret":r,"errno":e,"want":data.len(),"peer_got":n,"what":"all bytes sent once, in order, to this call's own peer"})
            }
            Call::Sendto { len } => {
                // UDP over loopback (the zero-copy send the hook uses is not supported on
                // AF_UNIX sockets): receiver bound to 127.0.0.1:0, destination passed explicitly
                let (rx, tx, addr, alen) = unsafe {
                    let rx = libc::socket(libc::AF_INET, libc::SOCK_DGRAM, 0);
                    let tx = libc::socket(libc::AF_INET, libc::SOCK_DGRAM, 0);
                    let mut addr: libc::sockaddr_in = std::mem::zeroed();
                    addr.sin_family = libc::AF_INET as libc::sa_family_t;
                    addr.sin_addr.s_addr = u32::from_ne_bytes([127, 0, 0, 1]);
                    addr.sin_port = 0;
                    let mut alen = std::mem::size_of::<libc::sockaddr_in>() as libc::socklen_t;
                    let b = libc::bind(rx, std::ptr::from_ref(&addr).cast(), alen);
                    let g = libc::getsockname(rx, std::ptr::from_mut(&mut addr).cast(), &mut alen);
                    if rx < 0 || tx < 0 || b != 0 || g != 0 {
                        (-1, -1, addr, alen)
                    } else {
                        (rx, tx, addr, alen)
                    }
                };
                if rx < 0 {
                    json!({"ok":true,"skipped":"no loopback UDP in this environment","ret":0,"errno":0,"want":0,"what":""})
                } else {
                    let data = payload(a, k, usize::from(len));
                    let r = hooked::sendto(None, tx, data.as_ptr().cast(), data.len(), libc::MSG_NOSIGNAL, std::ptr::from_ref(&addr).cast(), alen);
                    let e = errno();
                    let mut got = vec![0u8; 200];
                    // the datagram is in the receive queue once the send has completed
                    let mut n = -1;
                    for _ in 0..50 {
                        n = unsafe { libc::recv(rx, got.as_mut_ptr().cast(), 200, libc::MSG_DONTWAIT) };
                        if n >= 0 {
                            break;
                        }
                        std::thread::sleep(Duration::from_millis(1));
                    }
                    unsafe {
                        libc::close(rx);
                        libc::close(tx);
                    }
                    let ok = r == data.len() as isize && n == data.len() as isize && got[..data.len()] == data[..];
                    json!({"ok":ok,"ret":r,"errno":e,"want":data.len(),"peer_got":n,"what":"the datagram is delivered once to this call's own receiver and its length is returned"})
                }
            }
            Call::SendtoNotSocket { len } => {
                let path = format!("/tmp/c27-ns-{}-{a}-{k}", std::process::id());
                let cpath = std::ffi::CString::new(path).unwrap();
                let fd = unsafe { libc::open(cpath.as_ptr(), libc::O_CREAT | libc::O_RDWR | libc::O_TRUNC, 0o600) };
                let data = payload(a, k, usize::from(len));
                let r = hooked::sendto(None, fd, data.as_ptr().cast(), data.len(), libc::MSG_NOSIGNAL, std::ptr::null(), 0);
                let e = errno();
                unsafe {
                    libc::close(fd);
                    libc::unlink(cpath.as_ptr());
                }
                json!({"ok": r == -1 && e == libc::ENOTSOCK,"ret":r,"errno":e,"want":-1,"what":"-1 with ENOTSOCK"})
            }
            Call::RecvEof { delay_ms } => {
                let (fd, peer) = pair();
                let w = std::thread::spawn(move || {
                    std::thread::sleep(Duration::from_millis(u64::from(delay_ms)));
                    unsafe { libc::shutdown(peer, libc::SHUT_WR) };
                });
                let r = hooked::recv(None, fd, buf.as_mut_ptr().cast(), 150, 0);
                let e = errno();
                let _ = w.join();
                json!({"ok": r == 0 && buf.iter().all(|b| *b == SENT),"ret":r,"errno":e,"want":0,"what":"end of stream"})
            }
            Call::SendClosedPeer { len } => {
                let (fd, peer) = pair();
                unsafe { libc::close(peer) };
                let data = payload(a, k, usize::from(len));
                let r = hooked::send(None, fd, data.as_ptr().cast(), data.len(), libc::MSG_NOSIGNAL);
                let e = errno();
                json!({"ok": r == -1 && e == libc::EPIPE,"ret":r,"errno":e,"want":-1,"what":"-1 with EPIPE"})
            }
            Call::RecvBadFd => {
                let fd = 900_000 + (a * 16 + k) as c_int;
                let r = hooked::recv(None, fd, buf.as_mut_ptr().cast(), 150, 0);
                let e = errno();
                json!({"ok": r == -1 && e == libc::EBADF && buf.iter().all(|b| *b == SENT),"ret":r,"errno":e,"want":-1,"what":"-1 with EBADF"})
            }
            Call::RecvTimeoutThenData { len } => {
                let (fd, peer) = pair();
                let tv = libc::timeval { tv_sec: 0, tv_usec: 20_000 };
                let _ = hooked::setsockopt(None, fd, libc::SOL_SOCKET, libc::SO_RCVTIMEO, std::ptr::from_ref(&tv).cast(), std::mem::size_of::<libc::timeval>() as libc::socklen_t);
                let r1 = hooked::recv(None, fd, buf.as_mut_ptr().cast(), 150, 0);
                let e1 = errno();
                let first_ok = r1 == -1 && (e1 == libc::EAGAIN || e1 == libc::ETIMEDOUT || e1 == libc::EWOULDBLOCK);
                let data = payload(a, k, usize::from(len));
                unsafe { libc::send(peer, data.as_ptr().cast(), data.len(), libc::MSG_NOSIGNAL) };
                std::thread::sleep(Duration::from_millis(3));
                // the first call has returned: its buffer must not be written any more
                let first_buf_untouched = buf.iter().all(|b| *b == SENT);
                let mut buf2 = vec![SENT; 160];
                child::emit(json!({"ev":"note","k":format!("{a}.{k}"),"phase":"second recv","first":[r1,e1]}));
                let r2 = hooked::recv(None, fd, buf2.as_mut_ptr().cast(), 150, 0);
                let e2 = errno();
                let second_ok = r2 == data.len() as isize && buf2[..data.len()] == data[..];
                json!({"ok": first_ok && first_buf_untouched && second_ok,"ret":r2,"errno":e2,"want":data.len(),"first":[r1,e1],"first_buf_untouched":first_buf_untouched,
                    "what":"recv #1 fails with a timeout errno, its buffer stays untouched, recv #2 returns exactly the bytes written afterwards"})
            }
            Call::PwritePread { len, off } => {
                let path = format!("/tmp/c27-{}-{a}-{k}", std::process::id());
                let cpath = std::ffi::CString::new(path.clone()).unwrap();
                let fd = unsafe { libc::open(cpath.as_ptr(), libc::O_CREAT | libc::O_RDWR | libc::O_TRUNC, 0o600) };
                let data = payload(a, k, usize::from(len));
                let w = hooked::pwrite(None, fd, data.as_ptr().cast(), data.len(), i64::from(off));
                let ew = errno();
                let r = hooked::pread(None, fd, buf.as_mut_ptr().cast(), 150, i64::from(off));
                let er = errno();
                unsafe {
                    libc::close(fd);
                    libc::unlink(cpath.as_ptr());
                }
                let ok = w == data.len() as isize && r == data.len() as isize && buf[..data.len()] == data[..];
                json!({"ok":ok,"ret":r,"errno":er,"want":data.len(),"pwrite":[w,ew],"what":"pwrite stores and pread returns this call's own bytes at its offset"})
            }
        };
        let mut rec = rec;
        rec["actor"] = json!(a);
        rec["k"] = json!(k);
        rec["call"] = json!(c);
        rec["ms"] = json!(t.elapsed().as_millis() as u64);
        out.lines.lock().unwrap().push(rec);
        child::emit(json!({"ev":"done","k":format!("{a}.{k}")}));
    }
}

pub fn child_main() -> i32 {
    let case: Case = serde_json::from_value(child::read_stdin_json()).expect("case");
    if !cfg!(feature = "io_uring") {
        eprintln!("C27child needs the binary built with the io_uring feature");
        return 3;
    }
    unsafe {
        libc::signal(libc::SIGPIPE, libc::SIG_IGN);
    }
    // report the first panic on the protocol channel (a panic inside an extern "C" function
    // aborts, and the backtrace that follows pushes the message out of the stderr tail)
    std::panic::set_hook(Box::new(|info| {
        let msg = info.payload().downcast_ref::<&'static str>().map(|s| (*s).to_string()).or_else(|| info.payload().downcast_ref::<String>().cloned()).unwrap_or_default();
        let loc = info.location().map(|l| format!("{}:{}", l.file().rsplit('/').next().unwrap_or(""), l.line())).unwrap_or_default();
        child::emit_raw(&json!({"ev":"panic","msg":msg,"at":loc}).to_string());
    }));
    let mut cfg = Config::single();
    cfg.set_hook(false);
    cfg.set_event_loop_size(usize::from(case.loops.clamp(1, 2)));
    EventLoops::init(&cfg);
    let out = Arc::new(Out { lines: Mutex::new(vec![]) });
    let finished = Arc::new(AtomicU64::new(0));
    let mut threads = vec![];
    let mut keep = vec![];
    for (a, actor) in case.actors.iter().cloned().enumerate() {
        let (out, finished) = (out.clone(), finished.clone());
        if actor.in_task {
            keep.push(EventLoops::submit_task(
                Some(format!("c27-actor-{a}")),
                move |_| {
                    run_actor(a, &actor.calls, &out);
                    finished.fetch_add(1, Ordering::SeqCst);
                    None
                },
                None,
                None,
            ));
        } else {
            threads.push(std::thread::spawn(move || {
                run_actor(a, &actor.calls, &out);
                finished.fetch_add(1, Ordering::SeqCst);
            }));
        }
    }
    // the parent's deadline bounds this wait
    while (finished.load(Ordering::SeqCst) as usize) < case.actors.len() {
        std::thread::sleep(Duration::from_millis(2));
    }
    child::emit(json!({"ev":"result","calls":*out.lines.lock().unwrap()}));
    let _ = (threads, keep);
    unsafe { libc::_exit(0) }
}

pub fn exec(c: &Case) -> Outcome {
    let js = serde_json::to_string(c).unwrap();
    let r = child::run_child(&ChildSpec { args: vec!["C27child".into()], stdin: &js, timeout: Duration::from_secs(8), env: vec![] });
    let mut o = Outcome::pass();
    let ncalls: usize = c.actors.iter().map(|a| a.calls.len()).sum();
    let errs = c.actors.iter().flat_map(|a| a.calls.iter()).filter(|x| matches!(x, Call::SendClosedPeer { .. } | Call::RecvBadFd | Call::RecvTimeoutThenData { .. } | Call::SendtoNotSocket { .. })).count();
    o.nontrivial = c.actors.len() >= 4 && errs >= 1;
    o = o
        .class_if(c.actors.len() >= 4, "4+concurrent-actors")
        .class_if(errs >= 1, "has-error-completion")
        .class_if(c.actors.iter().any(|a| a.in_task) && c.actors.iter().any(|a| !a.in_task), "tasks-and-threads")
        .class_if(c.loops >= 2, "2-event-loops")
        .class_if(c.actors.iter().flat_map(|a| a.calls.iter()).any(|x| matches!(x, Call::RecvTimeoutThenData { .. })), "timeout-then-data");
    // still-open calls
    let mut open: Vec<String> = vec![];
    for l in &r.lines {
        match l["ev"].as_str() {
            Some("start") => open.push(l["k"].as_str().unwrap_or("").to_string()),
            Some("done") => open.retain(|k| Some(k.as_str()) != l["k"].as_str()),
            _ => {}
        }
    }
    let call_of = |k: &str| -> Option<(bool, Call)> {
        let (a, i) = k.split_once('.')?;
        let a: usize = a.parse().ok()?;
        let i: usize = i.parse().ok()?;
        let actor = c.actors.get(a)?;
        Some((actor.in_task, *actor.calls.get(i)?))
    };
    let _ = ncalls;
    match &r.end {
        End::Exit(0) => {}
        End::Exit(3) => {
            o.excluded = Some("binary-built-without-io_uring");
            return o;
        }
        End::Signal(sig) => {
            let calls: Vec<String> = open.iter().filter_map(|k| call_of(k).map(|(t, c)| format!("{}{k} {c:?}", if t { "task " } else { "thread " }))).collect();
            // the culprit is named by the first panic message, not by whatever else was open
            let first_panic = r.find("panic").first().map(|p| p["msg"].as_str().unwrap_or("").to_string()).unwrap_or_default();
            let what = if first_panic.contains("previous token was not retrieved") {
                "previous-token-not-retrieved".to_string()
            } else if first_panic.is_empty() {
                "no-panic-message".to_string()
            } else {
                first_panic.chars().map(|ch| if ch.is_ascii_alphanumeric() { ch.to_ascii_lowercase() } else { '-' }).take(48).collect::<String>()
            };
            o.set_fail(
                format!("C27/process-killed-by-signal-{sig}/{what}"),
                format!("the process died (signal {sig}: {first_panic}) with these calls open: {calls:?}"),
            );
            return o;
        }
        End::Deadline { .. } => {
            let calls: Vec<String> = open.iter().filter_map(|k| call_of(k).map(|(t, c)| format!("{}{k} {c:?}", if t { "task " } else { "thread " }))).collect();
            let kinds: std::collections::BTreeSet<&'static str> = open.iter().filter_map(|k| call_of(k)).map(|(_, c)| kind(&c)).collect();
            o.set_fail(
                format!("C27/call-never-completed/{}", kinds.into_iter().collect::<Vec<_>>().join("+")),
                format!("8 s after start (every payload is written at most 25 ms after its call began) these calls were still open: {calls:?}"),
            );
            return o;
        }
        End::Exit(_) => {
            o.excluded = Some("child-exited-nonzero");
            return o;
        }
    }
    if let Some(res) = r.result() {
        for x in res["calls"].as_array().cloned().unwrap_or_default() {
            if x["ok"].as_bool() != Some(true) {
                let call: Call = serde_json::from_value(x["call"].clone()).unwrap_or(Call::RecvBadFd);
                let who = if c.actors.get(x["actor"].as_u64().unwrap_or(0) as usize).is_some_and(|a| a.in_task) { "task" } else { "thread" };
                // the other face of the listed finding "a timed-out read-type call leaves its
                // submission in flight": when the second recv does not reuse the first one's
                // token (the task moved to another loop), it does not abort -- the stale
                // submission of the first call receives the data and the second call times out too
                let stale_took_the_data = matches!(call, Call::RecvTimeoutThenData { .. })
                    && x["ret"].as_i64() == Some(-1)
                    && x["errno"].as_i64() == Some(i64::from(libc::ETIMEDOUT))
                    && x["first"][0].as_i64() == Some(-1)
                    && x["first"][1].as_i64() == Some(i64::from(libc::ETIMEDOUT));
                let suffix = if stale_took_the_data { "data-went-to-the-call-that-had-timed-out" } else { "wrong-result" };
                o.set_fail(
                    format!("C27/{}/{suffix}", kind(&call)),
                    format!("{who} actor {} call #{} {call:?}: returned {} (errno {}), expected {}: {}; details {}", x["actor"], x["k"], x["ret"], x["errno"], x["want"], x["what"], x),
                );
                return o;
            }
        }
    }
    o
}

fn kind(c: &Call) -> &'static str {
    match c {
        Call::Recv { .. } => "recv",
        Call::Read { .. } => "read",
        Call::Send { .. } => "send",
        Call::Write { .. } => "write",
        Call::RecvEof { .. } => "recv-at-eof",
        Call::SendClosedPeer { .. } => "send-to-closed-peer",
        Call::RecvBadFd => "recv-bad-fd",
        Call::RecvTimeoutThenData { .. } => "recv-timeout-then-data",
        Call::PwritePread { .. } => "pwrite-pread",
        Call::Sendto { .. } => "sendto",
        Call::SendtoNotSocket { .. } => "sendto-not-a-socket",
    }
}

pub fn main(args: &Args) -> i32 {
    if !cfg!(feature = "io_uring") {
        eprintln!("[C27] INCONCLUSIVE: this binary was built without the io_uring feature");
        return 2;
    }
    if let Some(p) = &args.replay {
        let (_, _, case) = vkit::load_replay(p);
        let c: Case = serde_json::from_value(case).expect("case");
        let mut last = Outcome::pass();
        for _ in 0..5 {
            last = exec(&c);
            if last.fail.is_some() {
                break;
            }
        }
        return vkit::replay_verdict("C27", p, &last);
    }
    let mut ev = Evidence::new("C27", args, "exploration");
    ev.assume("the kernel of this sandbox accepts io_uring (the engine reports INCONCLUSIVE otherwise); every call works on its own descriptor, so any foreign byte or count is a misrouted completion");
    ev.assume("a call still open 8 s after the child started (payloads are written at most 25 ms after their call began) is reported for the calls that were open");
    ev.add(vkit::run_regress("C27", |_s, case| exec(&serde_json::from_value(case).expect("case"))));
    if ev.has_violations() {
        return ev.finish();
    }
    ev.add(vkit::run_prop(
        &RunCfg {
            property: "C27",
            sub: "io_uring",
            rule: "fresh child per case: 1..2 event loops, 2..6 concurrent actors (task | thread) x 1..4 hooked calls (recv/read/send/write/sendto/eof/EPIPE/EBADF/ENOTSOCK/pwrite+pread), each call on its own descriptor with a payload unique to it; non-trivial = >= 4 actors and >= 1 error completion",
            seed: args.seed,
            cases: args.cases(600, 8_000),
            shards: 8,
            max_shrink_iters: 60,
        },
        || strategy(false),
        exec,
    ));
    ev.add(vkit::run_prop(
        &RunCfg {
            property: "C27",
            sub: "io_uring-with-timeouts",
            rule: "as above, plus the timeout-then-data call in task actors (setsockopt SO_RCVTIMEO 20 ms, recv on an idle socket, then data, recv again)",
            seed: args.seed,
            cases: args.cases(40, 400),
            shards: 4,
            max_shrink_iters: 30,
        },
        || strategy(true),
        exec,
    ));
    ev.finish()
}

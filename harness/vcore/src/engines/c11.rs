//! C11 — the pool's worker count is exact and bounded; C12 — pool lifecycle.
//! (two engines over one interpreter: a standalone `CoroutinePool` driven by a generated
//! history of submit / pass / sleep / cancel / wait / stop.)
//!
//! C11 oracle: after every driver step `get_running_size() <= max_size`; after every pass
//! that ran dry `get_running_size()` equals the number of worker coroutines that are still
//! alive (a drop-counting token planted in every worker's coroutine-local storage by a
//! listener: created - dropped); once all tasks are finished or cancelled, `stop` returns
//! promptly and the running size is 0.
//! A second C11 sub-run drives two pools from one thread (c11two.rs): a worker stolen by the
//! other pool's pass is counted where it runs.
//! C12 oracle: observed states only move Running -> Stopping -> Stopped; a submit after stop
//! began is rejected; every task accepted earlier and not cancelled has executed when stop
//! reports success; a waiter for a task that never runs gets an error shortly after stop.

use open_coroutine_core::co_pool::CoroutinePool;
use open_coroutine_core::common::constants::{CoroutineState, PoolState};
use open_coroutine_core::coroutine::listener::Listener;
use open_coroutine_core::coroutine::local::CoroutineLocal;
use open_coroutine_core::scheduler::{SchedulableCoroutineState, SchedulableSuspender};
use proptest::prelude::*;
use serde::{Deserialize, Serialize};
use std::sync::atomic::{AtomicBool, AtomicU32, AtomicUsize, Ordering};
use std::sync::Arc;
use std::time::{Duration, Instant};
use serde_json::json;
use vkit::child::{self, ChildSpec, End};
use vkit::{pick, Args, Evidence, Outcome, RunCfg};

#[derive(Debug, Clone, Copy, Serialize, Deserialize, PartialEq)]
pub enum Body {
    Return,
    Panic,
    Delay(u8),
    Suspend,
    DelayThenPanic(u8),
}

#[derive(Debug, Clone, Copy, Serialize, Deserialize, PartialEq)]
pub enum Op {
    Submit(Body),
    Pass(u8),
    Sleep(u8),
    /// cancel the k-th submitted task (monotone index)
    Cancel(u16),
    /// C12: a helper thread waits for the k-th task's result
    Wait(u16),
    /// C12: like `Wait`, but the helper thread is held between wait_task_result's first look
    /// at the results and its registration as a waiter (hook point
    /// `wait_task_result:before_register`) until the next stop begins or the history ends,
    /// so the task may finish inside that window
    WaitLate(u16),
    /// C12: stop with a generous limit (C12 also judges what happens afterwards)
    Stop,
    /// C12: stop with a limit of that many ms (may be shorter than the remaining work)
    StopShort(u8),
}

#[derive(Debug, Clone, Serialize, Deserialize)]
pub struct Case {
    pub min: u8,
    pub max: u8,
    /// 0 = none, 1 = 5 ms, 2 = 20 ms (an idle worker spins inside the scheduling pass until its
    /// keep-alive time is over, so "forever" or min_size > 0 would never hand control back to
    /// a single-threaded driver; those configurations are exercised through EventLoops)
    pub keep_alive: u8,
    pub ops: Vec<Op>,
}

fn body() -> impl Strategy<Value = Body> {
    prop_oneof![
        4 => Just(Body::Return),
        2 => Just(Body::Panic),
        3 => (1u8..30).prop_map(Body::Delay),
        2 => Just(Body::Suspend),
        1 => (1u8..20).prop_map(Body::DelayThenPanic),
    ]
}

pub fn strategy(lifecycle: bool) -> impl Strategy<Value = Case> {
    let op = if lifecycle {
        prop_oneof![
            6 => body().prop_map(Op::Submit),
            4 => (1u8..15).prop_map(Op::Pass),
            2 => (0u8..10).prop_map(Op::Sleep),
            2 => any::<u16>().prop_map(Op::Cancel),
            2 => any::<u16>().prop_map(Op::Wait),
            1 => any::<u16>().prop_map(Op::WaitLate),
            1 => Just(Op::Stop),
            1 => (0u8..12).prop_map(Op::StopShort),
        ]
        .boxed()
    } else {
        prop_oneof![
            6 => body().prop_map(Op::Submit),
            5 => (1u8..15).prop_map(Op::Pass),
            2 => (0u8..12).prop_map(Op::Sleep),
            3 => any::<u16>().prop_map(Op::Cancel),
        ]
        .boxed()
    };
    (Just(0u8), 1u8..=6, 0u8..3, proptest::collection::vec(op, 1..24)).prop_map(|(min, max, keep_alive, ops)| Case {
        min: min.min(max),
        max,
        keep_alive,
        ops,
    })
}

/// planted in each worker's coroutine-local storage; counts drops
struct AliveTok(Arc<AtomicUsize>);
impl Drop for AliveTok {
    fn drop(&mut self) {
        self.0.fetch_add(1, Ordering::SeqCst);
    }
}

#[derive(Debug)]
struct Tagger {
    created: Arc<AtomicUsize>,
    dropped: Arc<AtomicUsize>,
    terminal: Arc<AtomicUsize>,
}

impl Listener<(), Option<usize>> for Tagger {
    fn on_state_changed(&self, local: &CoroutineLocal, old: SchedulableCoroutineState, new: SchedulableCoroutineState) {
        if old == CoroutineState::Ready && new == CoroutineState::Running && local.get::<AliveTok>("c11-alive").is_none() {
            self.created.fetch_add(1, Ordering::SeqCst);
            let _ = local.put("c11-alive", AliveTok(self.dropped.clone()));
        }
        if matches!(new, CoroutineState::Complete(_) | CoroutineState::Error(_) | CoroutineState::Cancelled) {
            self.terminal.fetch_add(1, Ordering::SeqCst);
        }
    }
}

struct SendPool(*const CoroutinePool<'static>);
unsafe impl Send for SendPool {}

static SERIAL: AtomicU32 = AtomicU32::new(0);
/// set in the per-case child process: print `start k` / `done k` around every driver step
static TRACE_OPS: AtomicBool = AtomicBool::new(false);

/// task ids whose waiter is to be held at `wait_task_result:before_register`
static GATED: std::sync::Mutex<Vec<u64>> = std::sync::Mutex::new(Vec::new());
static GATE_OPEN: AtomicBool = AtomicBool::new(false);
static GATE_HELD: AtomicU32 = AtomicU32::new(0);

fn gate_handler(name: &'static str, a: u64, _b: u64) {
    if name != "wait_task_result:before_register" || !GATED.lock().unwrap().contains(&a) {
        return;
    }
    GATE_HELD.fetch_add(1, Ordering::SeqCst);
    let t = Instant::now();
    while !GATE_OPEN.load(Ordering::SeqCst) && t.elapsed() < Duration::from_secs(10) {
        std::thread::sleep(Duration::from_micros(200));
    }
}

static HANGS_SEEN: AtomicU32 = AtomicU32::new(0);
static MAX_WALL_MS: std::sync::atomic::AtomicU64 = std::sync::atomic::AtomicU64::new(0);

/// every class label an outcome can carry (the child reports them by name)
const CLASSES: [&str; 8] = [
    "cancel-while-suspended",
    "worker-died-by-panic",
    "max-size-reached",
    "submit-after-stop",
    "waiter-spans-stop",
    "waiter-held-before-registering",
    "stop-called-after-a-stop-that-timed-out",
    "stop-called-on-a-stopped-pool",
];

pub fn exec(c: &Case, lifecycle: bool) -> Outcome {
    let serial = SERIAL.fetch_add(1, Ordering::SeqCst);
    let keep = match c.keep_alive {
        0 => 0u64,
        1 => 5_000_000,
        _ => 20_000_000,
    };
    let max = c.max.max(1) as usize;
    let min = (c.min as usize).min(max);
    // the pool is leaked on failure paths (its Drop asserts); boxed so helper threads can see it
    let pool: &'static mut CoroutinePool<'static> = Box::leak(Box::new(CoroutinePool::new(format!("c11-{serial}"), 64 * 1024, min, max, keep)));
    let created = Arc::new(AtomicUsize::new(0));
    let dropped = Arc::new(AtomicUsize::new(0));
    let terminal = Arc::new(AtomicUsize::new(0));
    pool.add_listener(Tagger { created: created.clone(), dropped: dropped.clone(), terminal: terminal.clone() });

    struct T {
        id: u64,
        body: Body,
        ran: Arc<AtomicU32>,
        done: Arc<AtomicBool>,
        cancelled: bool,
        accepted_before_stop: bool,
    }
    fn stop_ok(tasks: &[T], o: &mut Outcome, at: &str, el: Duration, earlier_timeouts: u32) {
        for (i, t) in tasks.iter().enumerate() {
            if t.accepted_before_stop && !t.cancelled && !t.done.load(Ordering::SeqCst) {
                o.set_fail(
                    "C12/stop-reported-success-with-accepted-task-not-run",
                    format!(
                        "{at}: stop() returned Ok after {el:?} ({earlier_timeouts} earlier stop call(s) had timed out) but task #{i} ({:?}) accepted earlier has not finished (started: {})",
                        t.body,
                        t.ran.load(Ordering::SeqCst) > 0
                    ),
                );
            }
        }
    }
    let mut tasks: Vec<T> = vec![];
    let mut o = Outcome::pass();
    let (mut stop_timed_out, mut stop_again_on_stopped, mut stop_after_timeout) = (0u32, 0u32, 0u32);
    GATED.lock().unwrap().clear();
    GATE_OPEN.store(false, Ordering::SeqCst);
    GATE_HELD.store(0, Ordering::SeqCst);
    open_coroutine_core::verif::set_handler(Some(gate_handler));
    let mut states = vec![pool.state()];
    let mut stop_started = false;
    let mut stop_ok_at: Option<Instant> = None;
    let mut waiters: Vec<(usize, std::thread::JoinHandle<(Duration, Result<Result<Option<usize>, String>, String>)>, Instant)> = vec![];
    let (mut cancel_suspended, mut worker_panics, mut max_reached, mut submit_after_stop, mut waiter_spans_stop) = (0, 0, false, 0, 0);
    let alive = |created: &AtomicUsize, dropped: &AtomicUsize| created.load(Ordering::SeqCst) - dropped.load(Ordering::SeqCst);

    for (k, op) in c.ops.iter().enumerate() {
        if o.fail.is_some() {
            break;
        }
        let trace = TRACE_OPS.load(Ordering::Relaxed);
        if trace {
            child::emit(json!({"ev":"start","k":k}));
        }
        match *op {
            Op::Submit(b) => {
                let ran = Arc::new(AtomicU32::new(0));
                let done = Arc::new(AtomicBool::new(false));
                let (r2, d2) = (ran.clone(), done.clone());
                let n = tasks.len();
                let res = pool.submit_task(
                    Some(format!("c11-{serial}-t{n}")),
                    move |_| {
                        r2.fetch_add(1, Ordering::SeqCst);
                        match b {
                            Body::Return => {}
                            Body::Panic => {
                                d2.store(true, Ordering::SeqCst);
                                panic!("c11 task panic");
                            }
                            Body::Delay(ms) => {
                                if let Some(s) = SchedulableSuspender::current() {
                                    s.delay(Duration::from_millis(u64::from(ms)));
                                }
                            }
                            Body::Suspend => {
                                if let Some(s) = SchedulableSuspender::current() {
                                    s.suspend();
                                }
                            }
                            Body::DelayThenPanic(ms) => {
                                if let Some(s) = SchedulableSuspender::current() {
                                    s.delay(Duration::from_millis(u64::from(ms)));
                                }
                                d2.store(true, Ordering::SeqCst);
                                panic!("c11 task panic after delay");
                            }
                        }
                        d2.store(true, Ordering::SeqCst);
                        Some(n)
                    },
                    None,
                    None,
                );
                match res {
                    Ok(id) => {
                        if stop_started {
                            o.set_fail("C12/submit-accepted-after-stop-began", format!("op {k}: submit returned Ok in state {:?}", pool.state()));
                        }
                        tasks.push(T { id, body: b, ran, done, cancelled: false, accepted_before_stop: !stop_started });
                    }
                    Err(_) => {
                        if !stop_started {
                            o.set_fail("C12/submit-rejected-while-running", format!("op {k}: submit returned Err in state {:?}", pool.state()));
                        } else {
                            submit_after_stop += 1;
                        }
                    }
                }
            }
            Op::Pass(ms) => {
                if pool.state() == PoolState::Stopped {
                    continue;
                }
                let left = pool.try_timed_schedule_task(Duration::from_millis(u64::from(ms))).unwrap_or(0);
                let running = pool.get_running_size();
                if running >= max {
                    max_reached = true;
                }
                if left > 0 {
                    let a = alive(&created, &dropped);
                    if running != a {
                        o.set_fail(
                            "C11/running-size-differs-from-live-workers",
                            format!(
                                "op {k}: after a pass that ran dry get_running_size() = {running} but {a} worker coroutine(s) are alive ({} started, {} dropped, {} reached a terminal state)",
                                created.load(Ordering::SeqCst),
                                dropped.load(Ordering::SeqCst),
                                terminal.load(Ordering::SeqCst)
                            ),
                        );
                    }
                }
            }
            Op::Sleep(ms) => std::thread::sleep(Duration::from_millis(u64::from(ms))),
            Op::Cancel(ix) => {
                if tasks.is_empty() {
                    continue;
                }
                let i = pick(ix, tasks.len());
                if tasks[i].cancelled || tasks[i].done.load(Ordering::SeqCst) {
                    continue;
                }
                let started = tasks[i].ran.load(Ordering::SeqCst) > 0;
                if started && matches!(tasks[i].body, Body::Delay(_) | Body::Suspend | Body::DelayThenPanic(_)) {
                    cancel_suspended += 1;
                }
                CoroutinePool::try_cancel_task(tasks[i].id);
                tasks[i].cancelled = true;
            }
            Op::Wait(ix) | Op::WaitLate(ix) => {
                if tasks.is_empty() || waiters.len() >= 3 {
                    continue;
                }
                let i = pick(ix, tasks.len());
                if waiters.iter().any(|w| w.0 == i) {
                    continue;
                }
                if matches!(*op, Op::WaitLate(_)) && !GATE_OPEN.load(Ordering::SeqCst) {
                    GATED.lock().unwrap().push(tasks[i].id);
                }
                let p = SendPool(std::ptr::from_ref(&*pool));
                let id = tasks[i].id;
                let h = std::thread::spawn(move || {
                    let p = p;
                    let pool: &CoroutinePool<'static> = unsafe { &*p.0 };
                    let t = Instant::now();
                    let r = pool.wait_task_result(id, Duration::from_secs(4));
                    (t.elapsed(), r.map(|x| x.map_err(str::to_string)).map_err(|e| e.to_string()))
                });
                waiters.push((i, h, Instant::now()));
            }
            Op::Stop | Op::StopShort(_) => {
                // a stop on a pool that is already Stopped is a call like any other: it may
                // report success only if every accepted task ran (seeded C12b: a timed-out stop
                // that left the pool Stopped made the next stop() succeed)
                if stop_started && pool.state() == PoolState::Stopped {
                    stop_again_on_stopped += 1;
                }
                stop_started = true;
                let limit = if let Op::StopShort(ms) = *op { Duration::from_millis(u64::from(ms)) } else { Duration::from_secs(3) };
                if !waiters.is_empty() {
                    waiter_spans_stop += 1;
                }
                GATE_OPEN.store(true, Ordering::SeqCst); // held waiters go on and register now
                std::thread::sleep(Duration::from_millis(2)); // let helper threads register
                if stop_timed_out > 0 {
                    stop_after_timeout += 1;
                }
                let t = Instant::now();
                let r = pool.stop(limit);
                let el = t.elapsed();
                states.push(pool.state());
                match r {
                    Ok(()) => {
                        stop_ok_at = Some(Instant::now());
                        stop_ok(&tasks, &mut o, &format!("op {k}"), el, stop_timed_out);
                    }
                    Err(_) => stop_timed_out += 1,
                }
            }
        }
        let st = pool.state();
        if *states.last().unwrap() != st {
            states.push(st);
        }
        let running = pool.get_running_size();
        if running > max {
            o.set_fail("C11/running-size-exceeds-max", format!("op {k}: get_running_size() = {running} > max_size {max}"));
        }
        if trace {
            child::emit(json!({"ev":"done","k":k}));
        }
    }
    if TRACE_OPS.load(Ordering::Relaxed) {
        child::emit(json!({"ev":"start","k":"epilogue"}));
    }

    // state monotonicity
    let rank = |s: &PoolState| match s {
        PoolState::Running => 0,
        PoolState::Stopping => 1,
        PoolState::Stopped => 2,
    };
    if states.windows(2).any(|w| rank(&w[1]) < rank(&w[0])) {
        o.set_fail("C12/state-moved-backwards", format!("observed states {states:?}"));
    }

    // epilogue: drive everything to the end, then stop
    if o.fail.is_none() && !stop_started {
        let deadline = Instant::now() + Duration::from_secs(3);
        loop {
            let _ = pool.try_timed_schedule_task(Duration::from_millis(5));
            let all = tasks.iter().all(|t| t.cancelled || t.done.load(Ordering::SeqCst));
            if all || Instant::now() > deadline {
                break;
            }
            std::thread::sleep(Duration::from_millis(1));
        }
        // cancelled-while-suspended tasks wake up at most 30 ms later
        std::thread::sleep(Duration::from_millis(32));
        let _ = pool.try_timed_schedule_task(Duration::from_millis(5));
        let all = tasks.iter().all(|t| t.cancelled || t.done.load(Ordering::SeqCst));
        if !all {
            let missing: Vec<usize> = tasks.iter().enumerate().filter(|(_, t)| !(t.cancelled || t.done.load(Ordering::SeqCst))).map(|x| x.0).collect();
            o.set_fail("C11/tasks-never-finished", format!("tasks {missing:?} neither finished nor were cancelled although the pool kept being scheduled"));
        } else {
            GATE_OPEN.store(true, Ordering::SeqCst);
            std::thread::sleep(Duration::from_millis(2));
            let t = Instant::now();
            let r = pool.stop(Duration::from_secs(2));
            let el = t.elapsed();
            stop_ok_at = Some(Instant::now());
            let running = pool.get_running_size();
            if r.is_err() {
                o.set_fail("C11/stop-failed-after-all-work-done", format!("{r:?}"));
            } else if running != 0 {
                o.set_fail(
                    "C11/running-size-not-zero-after-all-work-done",
                    format!(
                        "all {} tasks finished or were cancelled ({} cancelled while suspended), stop(2 s) returned after {el:?} and get_running_size() is still {running}; {} worker(s) alive",
                        tasks.len(),
                        cancel_suspended,
                        alive(&created, &dropped)
                    ),
                );
            } else if el > Duration::from_millis(1000) {
                o.set_fail("C11/stop-waited-out-its-timeout", format!("all work was done but stop(2 s) took {el:?}"));
            }
        }
    }
    // a history whose stop calls all timed out ends with one generous stop: whatever the earlier
    // calls left behind, success may be reported only once every accepted task has run
    if lifecycle && o.fail.is_none() && stop_started && stop_ok_at.is_none() {
        GATE_OPEN.store(true, Ordering::SeqCst);
        stop_after_timeout += 1;
        let t = Instant::now();
        let r = pool.stop(Duration::from_secs(3));
        let el = t.elapsed();
        let st = pool.state();
        if *states.last().unwrap() != st {
            states.push(st);
        }
        if states.windows(2).any(|w| rank(&w[1]) < rank(&w[0])) {
            o.set_fail("C12/state-moved-backwards", format!("observed states {states:?}"));
        }
        if r.is_ok() {
            stop_ok_at = Some(Instant::now());
            stop_ok(&tasks, &mut o, "final stop(3 s)", el, stop_timed_out);
        }
    }
    GATE_OPEN.store(true, Ordering::SeqCst);
    let late_waiter_held = GATE_HELD.load(Ordering::SeqCst) >= 1;
    // waiters must be settled shortly after stop returned
    for (i, h, _) in waiters {
        let t0 = Instant::now();
        while !h.is_finished() && t0.elapsed() < Duration::from_secs(5) {
            std::thread::sleep(Duration::from_millis(2));
        }
        if !h.is_finished() {
            o.set_fail("C12/waiter-still-blocked-after-stop", format!("waiter for task #{i} did not return within 5 s after stop"));
            continue;
        }
        let (_el, r) = h.join().expect("waiter thread");
        let t = &tasks[i];
        let never_ran = t.ran.load(Ordering::SeqCst) == 0;
        if never_ran {
            if let (Some(at), true) = (stop_ok_at, r.is_err() || matches!(r, Ok(Err(_)))) {
                let _ = at;
            }
            if matches!(r, Ok(Ok(_))) {
                o.set_fail("C12/waiter-got-a-value-for-a-task-that-never-ran", format!("task #{i}: {r:?}"));
            }
        } else if t.done.load(Ordering::SeqCst) && !t.cancelled {
            match (&t.body, &r) {
                (Body::Panic | Body::DelayThenPanic(_), Ok(Err(m))) if m.contains("c11 task panic") => {}
                (Body::Return | Body::Delay(_) | Body::Suspend, Ok(Ok(Some(v)))) if *v == i => {}
                (_, Err(_)) => {} // timed out before the task finished: judged by C02, not here
                other => o.set_fail("C12/waiter-got-a-foreign-result", format!("task #{i} {other:?}")),
            }
        }
        if let Body::Panic | Body::DelayThenPanic(_) = t.body {
            worker_panics += 1;
        }
    }
    if tasks.iter().any(|t| matches!(t.body, Body::Panic | Body::DelayThenPanic(_)) && t.ran.load(Ordering::SeqCst) > 0) {
        worker_panics += 1;
    }
    // release or leak the pool
    if o.fail.is_none() && pool.state() == PoolState::Stopped && pool.get_running_size() == 0 {
        let b = unsafe { Box::from_raw(std::ptr::from_mut(pool)) };
        let _ = std::panic::catch_unwind(std::panic::AssertUnwindSafe(move || drop(b)));
    }
    o.nontrivial = if lifecycle {
        submit_after_stop >= 1 || waiter_spans_stop >= 1 || stop_after_timeout >= 1
    } else {
        cancel_suspended >= 1 || worker_panics >= 1 || max_reached
    };
    o.class_if(cancel_suspended >= 1, "cancel-while-suspended")
        .class_if(worker_panics >= 1, "worker-died-by-panic")
        .class_if(max_reached, "max-size-reached")
        .class_if(submit_after_stop >= 1, "submit-after-stop")
        .class_if(waiter_spans_stop >= 1, "waiter-spans-stop")
        .class_if(stop_after_timeout >= 1, "stop-called-after-a-stop-that-timed-out")
        .class_if(stop_again_on_stopped >= 1, "stop-called-on-a-stopped-pool")
        .class_if(late_waiter_held, "waiter-held-before-registering")
}

/// child side (`C11child` / `C12child`): one history in a fresh process, verdict on stdout
fn child_main(prop: &'static str, lifecycle: bool) -> i32 {
    std::panic::set_hook(Box::new(|_| {}));
    let case: Case = serde_json::from_value(child::read_stdin_json()).expect("case");
    TRACE_OPS.store(true, Ordering::Relaxed);
    let o = match std::panic::catch_unwind(std::panic::AssertUnwindSafe(|| exec(&case, lifecycle))) {
        Ok(o) => o,
        Err(e) => {
            let m = e.downcast_ref::<&'static str>().map(|s| (*s).to_string()).or_else(|| e.downcast_ref::<String>().cloned()).unwrap_or_else(|| "non-string panic".into());
            Outcome::fail(format!("{prop}/harness-or-code-panic"), format!("panic while executing case: {m}"))
        }
    };
    child::emit(json!({
        "ev": "result",
        "fail": o.fail.as_ref().map(|(s, m)| json!([s, m])),
        "nontrivial": o.nontrivial,
        "classes": o.classes,
    }));
    // helper threads of a failed case may still be blocked; the verdict is out, leave
    std::process::exit(0)
}

/// parent side: run one history in a fresh child process. Pools, their leftover tasks and
/// worker coroutines live in process-wide work-stealing queues, so a history that ends with
/// work outstanding (a stop that timed out, a failed case) would hand that work to the pool
/// of the next history; a process per history makes every verdict a function of its own
/// history only, and identical to what `--replay` of the saved case sees.
pub fn exec_isolated(prop: &'static str, c: &Case) -> Outcome {
    let js = serde_json::to_string(c).unwrap();
    // Once a history has hung, proptest re-runs shrink candidates of it; give those a
    // shorter (still generous) limit and stop shrinking after a dozen hangs, so that a tree
    // with a non-returning call is reported in minutes rather than in hours.
    let seen = HANGS_SEEN.load(Ordering::SeqCst);
    if seen >= 12 {
        let mut o = Outcome::pass();
        o.excluded = Some("shrink-candidate-skipped-after-repeated-hangs");
        return o;
    }
    let limit = Duration::from_secs(if seen == 0 { 25 } else { 12 });
    let r = child::run_child(&ChildSpec { args: vec![format!("{prop}child")], stdin: &js, timeout: limit, env: vec![] });
    if matches!(r.end, End::Deadline { .. }) {
        HANGS_SEEN.fetch_add(1, Ordering::SeqCst);
    } else {
        MAX_WALL_MS.fetch_max(r.wall.as_millis() as u64, Ordering::SeqCst);
    }
    let at = || r.open_op().map(|v| v["k"].clone());
    let mut o = Outcome::pass();
    match (&r.end, r.result()) {
        (End::Exit(0), Some(res)) => {
            if let Some(f) = res["fail"].as_array() {
                o.set_fail(f[0].as_str().unwrap_or("?"), f[1].as_str().unwrap_or("?"));
            }
            o.nontrivial = res["nontrivial"].as_bool().unwrap_or(false);
            for cl in res["classes"].as_array().into_iter().flatten() {
                if let Some(k) = CLASSES.iter().find(|k| Some(**k) == cl.as_str()) {
                    o.classes.push(k);
                }
            }
        }
        // a scheduling pass / stop / wait that never returns although every task is short is
        // a failure of "returns promptly"; the longest legitimate history takes well under 10 s
        (End::Deadline { cpu_busy }, _) => o.set_fail(
            format!("{prop}/pool/call-did-not-return"),
            format!("the history was still executing after {limit:?} (cpu busy: {cpu_busy}); step in progress: {:?}", at()),
        ),
        (End::Signal(sig), _) => o.set_fail(
            format!("{prop}/process-aborted-while-executing-this-case"),
            format!("the process was killed by signal {sig} during step {:?}; stderr tail: {}", at(), r.stderr_tail.lines().rev().take(3).collect::<Vec<_>>().join(" | ")),
        ),
        _ => o.excluded = Some("child-ended-without-a-verdict"),
    }
    filter(prop, o)
}

fn main_for(args: &Args, prop: &'static str, lifecycle: bool) -> i32 {
    std::panic::set_hook(Box::new(|_| {}));
    if let Some(p) = &args.replay {
        let (_, sub, case) = vkit::load_replay(p);
        if sub == "two-pools" {
            return vkit::replay_verdict(prop, p, &super::c11two::exec_isolated(&serde_json::from_value(case).expect("case")));
        }
        return vkit::replay_verdict(prop, p, &exec_isolated(prop, &serde_json::from_value(case).expect("case")));
    }
    let mut ev = Evidence::new(prop, args, "exploration");
    ev.assume("one pool alive per process: every history (generated, regression seed or replay) runs in a fresh child process, because all pools of a process share one work-stealing task queue and one coroutine queue and leftover work of one history would be run by the pool of the next");
    ev.assume("liveness of a worker coroutine is observed through a drop-counting token in its coroutine-local storage");
    ev.add(vkit::run_regress(prop, move |s, case| {
        if s == "two-pools" {
            super::c11two::exec_isolated(&serde_json::from_value(case).expect("case"))
        } else {
            exec_isolated(prop, &serde_json::from_value(case).expect("case"))
        }
    }));
    if ev.has_violations() {
        return ev.finish();
    }
    let rule = if lifecycle {
        "histories over {submit(body), pass, sleep, cancel, wait on a helper thread, stop} on a standalone pool (min/max/keep-alive generated), one fresh process per history; non-trivial = a submit after stop began, or a waiter registered before stop, or a stop call made after an earlier stop call had timed out (every history whose stops all timed out ends with one stop(3 s))"
    } else {
        "histories over {submit(return|panic|delay|suspend|delay-then-panic), pass, sleep, cancel} on a standalone pool (max 1..6, min, keep-alive 0|5ms|forever), then drive to the end and stop, one fresh process per history; non-trivial = a task cancelled while suspended, or a worker died by panic, or max_size reached"
    };
    ev.add(vkit::run_prop(
        &RunCfg { property: prop, sub: "pool", rule, seed: args.seed, cases: if lifecycle { args.cases(600, 12_000) } else { args.cases(1_000, 20_000) }, shards: 8, max_shrink_iters: 300 },
        move || strategy(lifecycle),
        move |c| exec_isolated(prop, c),
    ));
    if !lifecycle {
        ev.add(vkit::run_prop(
            &RunCfg {
                property: prop,
                sub: "two-pools",
                rule: "two pools (max 1..6 each, keep-alive 0|5|20 ms) driven by one thread, so either pool's pass can pick up a worker the other created: histories over {submit to either pool (return|panic|delay|3x suspend|delay-then-panic), pass of either pool, sleep, cancel}, then both are driven to the end and stopped in turn, one fresh process per history; non-trivial = both pools used and a pass began while a started task was still unfinished",
                seed: args.seed,
                cases: args.cases(400, 8_000),
                shards: 8,
                max_shrink_iters: 200,
            },
            super::c11two::strategy,
            super::c11two::exec_isolated,
        ));
    }
    ev.extra.insert("longest_history_wall_s".into(), json!(MAX_WALL_MS.load(Ordering::SeqCst) as f64 / 1000.0));
    ev.extra.insert("histories_that_hung".into(), json!(HANGS_SEEN.load(Ordering::SeqCst)));
    ev.finish()
}

/// each engine only judges its own property's signatures
fn filter(prop: &str, mut o: Outcome) -> Outcome {
    if let Some((sig, _)) = &o.fail {
        if !sig.starts_with(prop) && !sig.contains("harness") {
            o.fail = None;
            o.excluded = Some("deviation-belongs-to-the-sibling-property");
        }
    }
    o
}

pub fn main_c11(args: &Args) -> i32 {
    main_for(args, "C11", false)
}
pub fn main_c12(args: &Args) -> i32 {
    main_for(args, "C12", true)
}
pub fn child_c11() -> i32 {
    child_main("C11", false)
}
pub fn child_c12() -> i32 {
    child_main("C12", true)
}

//! Shared pieces for the engines that drive the *real* work-steal queues single-threaded
//! (C05, C06, C04-real): op type, generators, interpreter producing an event trace.

use open_coroutine_core::common::ordered_work_steal::{Ordered, OrderedLocalQueue, OrderedWorkStealQueue};
use open_coroutine_core::common::work_steal::{LocalQueue, WorkStealQueue};
use proptest::prelude::*;
use serde::{Deserialize, Serialize};

#[derive(Debug, Clone, Copy, Serialize, Deserialize, PartialEq, Eq, Hash)]
pub enum Op {
    /// push to local queue `q` (index mapped monotonically onto the locals)
    LPush { q: u16, prio: i64 },
    /// push through `Ordered::priority()` == None (default precedence 0)
    LPushDefault { q: u16 },
    LPop { q: u16 },
    SPush { prio: i64 },
    SPop,
}

#[derive(Debug)]
pub struct Item {
    pub id: u32,
    pub prio: Option<i64>,
}

impl Ordered for Item {
    fn priority(&self) -> Option<i64> {
        self.prio
    }
}

pub fn prio() -> impl Strategy<Value = i64> {
    prop_oneof![
        6 => -2i64..3,
        1 => Just(i64::MIN),
        1 => Just(i64::MIN + 1),
        1 => Just(i64::MAX - 1),
        1 => Just(i64::MAX),
        1 => Just(-1i64),
        1 => Just(0i64),
        2 => any::<i64>(),
        1 => (0u32..63).prop_map(|s| 1i64 << s),
        1 => (0u32..63).prop_map(|s| -(1i64 << s)),
        // values that collide after truncation to 32 bits
        1 => (-3i64..3).prop_map(|x| x + (1i64 << 32)),
        1 => (-3i64..3).prop_map(|x| x - (1i64 << 32)),
    ]
}

pub fn op(w_lpush: u32, w_lpop: u32, w_spush: u32, w_spop: u32) -> impl Strategy<Value = Op> {
    prop_oneof![
        w_lpush => (any::<u16>(), prio()).prop_map(|(q, prio)| Op::LPush { q, prio }),
        (w_lpush / 6).max(1) => any::<u16>().prop_map(|q| Op::LPushDefault { q }),
        w_lpop => any::<u16>().prop_map(|q| Op::LPop { q }),
        w_spush => prio().prop_map(|prio| Op::SPush { prio }),
        w_spop => Just(Op::SPop),
    ]
}

#[derive(Debug, Clone, Copy, PartialEq, Eq, Hash, Serialize)]
pub enum Loc {
    Local(usize),
    Shared,
}

#[derive(Debug, Clone, Serialize)]
pub enum Ev {
    Push { id: u32, at: Loc, prio: i64 },
    Pop { at: Loc, got: Option<u32> },
}

/// A queue under test: ordered or plain, behind one interface.
pub enum Q<'a> {
    Ordered {
        shared: &'a OrderedWorkStealQueue<Item>,
        locals: Vec<OrderedLocalQueue<'a, Item>>,
    },
    Plain {
        shared: &'a WorkStealQueue<Item>,
        locals: Vec<LocalQueue<'a, Item>>,
    },
}

impl Q<'_> {
    pub fn nlocals(&self) -> usize {
        match self {
            Q::Ordered { locals, .. } => locals.len(),
            Q::Plain { locals, .. } => locals.len(),
        }
    }
    pub fn lpush(&self, q: usize, prio: i64, id: u32) {
        match self {
            Q::Ordered { locals, .. } => locals[q].push_with_priority(prio, Item { id, prio: Some(prio) }),
            Q::Plain { locals, .. } => locals[q].push(Item { id, prio: Some(prio) }),
        }
    }
    pub fn lpush_default(&self, q: usize, id: u32) {
        match self {
            Q::Ordered { locals, .. } => locals[q].push(Item { id, prio: None }),
            Q::Plain { locals, .. } => locals[q].push(Item { id, prio: None }),
        }
    }
    pub fn lpop(&self, q: usize) -> Option<u32> {
        match self {
            Q::Ordered { locals, .. } => locals[q].pop().map(|i| i.id),
            Q::Plain { locals, .. } => locals[q].pop().map(|i| i.id),
        }
    }
    pub fn spush(&self, prio: i64, id: u32) {
        match self {
            Q::Ordered { shared, .. } => shared.push_with_priority(prio, Item { id, prio: Some(prio) }),
            Q::Plain { shared, .. } => shared.push(Item { id, prio: Some(prio) }),
        }
    }
    pub fn spop(&self) -> Option<u32> {
        match self {
            Q::Ordered { shared, .. } => shared.pop().map(|i| i.id),
            Q::Plain { shared, .. } => shared.pop().map(|i| i.id),
        }
    }
    pub fn shared_len(&self) -> usize {
        match self {
            Q::Ordered { shared, .. } => shared.len(),
            Q::Plain { shared, .. } => shared.len(),
        }
    }
    /// local length as reported by the queue's own API
    pub fn local_len(&self, q: usize) -> usize {
        match self {
            Q::Ordered { locals, .. } => locals[q].local_len(),
            Q::Plain { locals, .. } => locals[q].len(),
        }
    }
    /// Drain everything through the public API; returns the ids in drain order.
    /// Tries every local repeatedly (a correct queue needs one round).
    pub fn drain(&self) -> Vec<(Loc, u32)> {
        let mut out = vec![];
        for _round in 0..3 {
            let mut any = false;
            for q in 0..self.nlocals() {
                let mut guard = 0;
                while let Some(id) = self.lpop(q) {
                    out.push((Loc::Local(q), id));
                    any = true;
                    guard += 1;
                    if guard > 1_000_000 {
                        break;
                    }
                }
            }
            while let Some(id) = self.spop() {
                out.push((Loc::Shared, id));
                any = true;
            }
            if !any {
                break;
            }
        }
        out
    }
}

/// Build a queue, run `f` on it, then make sure dropping it cannot panic the harness
/// (the queue's Drop asserts emptiness): drains first, leaks if something is stranded.
/// Returns (result of f, ids recovered by the final drain, stranded?).
pub fn with_queue<R>(ordered: bool, nlocals: usize, cap: usize, f: impl FnOnce(&Q<'_>) -> R) -> (R, Vec<(Loc, u32)>, bool) {
    if ordered {
        let shared: &'static OrderedWorkStealQueue<Item> = Box::leak(Box::new(OrderedWorkStealQueue::new(nlocals, cap)));
        let q = Q::Ordered {
            shared,
            locals: (0..nlocals).map(|_| shared.local_queue()).collect(),
        };
        let r = f(&q);
        let drained = q.drain();
        let stranded = match &q {
            Q::Ordered { locals, .. } => locals[0].len() > 0,
            _ => unreachable!(),
        };
        if stranded {
            std::mem::forget(q);
        } else {
            drop(q);
            // SAFETY: leaked above, no local queue refers to it any more
            unsafe { drop(Box::from_raw(std::ptr::from_ref(shared).cast_mut())) };
        }
        (r, drained, stranded)
    } else {
        let shared: &'static WorkStealQueue<Item> = Box::leak(Box::new(WorkStealQueue::new(nlocals, cap)));
        let q = Q::Plain {
            shared,
            locals: (0..nlocals).map(|_| shared.local_queue()).collect(),
        };
        let r = f(&q);
        let drained = q.drain();
        let stranded = match &q {
            Q::Plain { locals, shared } => locals.iter().any(|l| !l.is_empty()) || shared.len() > 0,
            _ => unreachable!(),
        };
        if stranded {
            std::mem::forget(q);
        } else {
            drop(q);
            unsafe { drop(Box::from_raw(std::ptr::from_ref(shared).cast_mut())) };
        }
        (r, drained, stranded)
    }
}

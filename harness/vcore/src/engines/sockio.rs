//! Scripted kernel for hooked socket I/O — engines C16 (bytes reported == bytes moved),
//! C17 (only the caller's unfilled buffers are handed down), C18 (non-blocking semantics and
//! blocking-flag restoration).
//!
//! Every hooked call is `pub extern "C" fn name(fn_ptr: Option<&extern "C" fn(..)>, args..)`:
//! the inner libc function is injectable. The engine owns real AF_UNIX stream socketpairs
//! (so is_socket / fcntl / getsockopt / epoll registration behave) and passes a scripted
//! inner function that answers from a thread-local script: Move(k) / WouldBlock / Intr /
//! Eof / Err(errno); after the script it moves everything offered. It behaves like a
//! kernel (success leaves errno alone, failure sets it), moves the deterministic stream
//! `s[i]` into / out of the offered ranges in order, and logs every inner call.

use libc::{c_int, c_void, iovec, msghdr, size_t, sockaddr, socklen_t, ssize_t};
use open_coroutine_core::config::Config;
use open_coroutine_core::net::EventLoops;
use open_coroutine_core::syscall as hooked;
use proptest::prelude::*;
use serde::{Deserialize, Serialize};
use std::cell::RefCell;
use std::sync::OnceLock;
use std::time::{Duration, Instant};
use vkit::{Args, Evidence, Outcome, RunCfg};

/// installed by the `vsock` binary: size of the live heap allocation starting at `ptr`
pub static ALLOC_SIZE_OF: OnceLock<fn(usize) -> Option<usize>> = OnceLock::new();
/// installed by the `vsock` binary: switch allocation tracking for the calling thread
pub static ALLOC_TRACK: OnceLock<fn(bool)> = OnceLock::new();

pub const POISON: u8 = 0xA5;
const POISON_WORD: usize = usize::from_ne_bytes([POISON; std::mem::size_of::<usize>()]);
const SENTINEL: u8 = 0xEE;

fn stream_byte(i: u64) -> u8 {
    ((i * 131 + 7) % 200) as u8
}
fn data_byte(j: usize) -> u8 {
    ((j * 37 + 11) % 200) as u8
}

#[derive(Debug, Clone, Copy, Serialize, Deserialize, PartialEq, Eq, Hash)]
pub enum Call {
    Read,
    Recv,
    Recvfrom,
    Readv,
    Recvmsg,
    Write,
    Send,
    Sendto,
    Writev,
    Sendmsg,
    Accept,
    Connect,
}

impl Call {
    pub fn is_read(self) -> bool {
        matches!(self, Call::Read | Call::Recv | Call::Recvfrom | Call::Readv | Call::Recvmsg)
    }
    pub fn is_vectored(self) -> bool {
        matches!(self, Call::Readv | Call::Recvmsg | Call::Writev | Call::Sendmsg)
    }
    pub fn is_data(self) -> bool {
        !matches!(self, Call::Accept | Call::Connect)
    }
    pub fn name(self) -> &'static str {
        match self {
            Call::Read => "read",
            Call::Recv => "recv",
            Call::Recvfrom => "recvfrom",
            Call::Readv => "readv",
            Call::Recvmsg => "recvmsg",
            Call::Write => "write",
            Call::Send => "send",
            Call::Sendto => "sendto",
            Call::Writev => "writev",
            Call::Sendmsg => "sendmsg",
            Call::Accept => "accept",
            Call::Connect => "connect",
        }
    }
}

#[derive(Debug, Clone, Copy, Serialize, Deserialize, PartialEq, Eq, Hash)]
pub enum Resp {
    Move(u8),
    WouldBlock,
    Intr,
    Eof,
    Err(u8),
}

const ERRNOS: [c_int; 4] = [libc::ECONNRESET, libc::EPIPE, libc::ENOTCONN, libc::EIO];

#[derive(Debug, Clone, Serialize, Deserialize)]
pub struct Case {
    pub call: Call,
    /// buffer lengths (vectored: one iovec each; others: the first is the buffer)
    pub bufs: Vec<u8>,
    pub script: Vec<Resp>,
    pub nonblock: bool,
    /// use the socket that carries a 30 ms SO_RCVTIMEO / SO_SNDTIMEO
    pub timeout: bool,
    pub in_task: bool,
    /// reads: the stream ends after this many bytes
    pub eof_at: Option<u8>,
}

#[derive(Debug, Default, Clone)]
pub struct InnerCall {
    pub claimed: usize,
    pub ranges: Vec<(usize, usize)>,
    pub result: isize,
    pub errno: c_int,
}

#[derive(Debug, Default)]
pub struct Kernel {
    script: Vec<Resp>,
    pos: usize,
    reading: bool,
    stream_pos: u64,
    eof_at: Option<u64>,
    sink: Vec<u8>,
    caller: Vec<(usize, usize)>,
    pub calls: Vec<InnerCall>,
    pub c17: Option<(String, String)>,
    pub moved: usize,
    pub accept_fd: c_int,
    /// an inner request pointed outside the caller's buffers: the scripted kernel refused it
    /// (EFAULT) instead of touching foreign memory
    pub refused: bool,
}

thread_local! {
    static KERNEL: RefCell<Kernel> = RefCell::new(Kernel::default());
}

extern "C" {
    #[link_name = "__errno_location"]
    fn errno_location() -> *mut c_int;
}
fn set_errno(e: c_int) {
    unsafe { *errno_location() = e };
}
fn get_errno() -> c_int {
    unsafe { *errno_location() }
}

impl Kernel {
    /// position (in the concatenation of the caller's buffers) of address `a`, if inside
    fn pos_of(&self, a: usize) -> Option<usize> {
        let mut off = 0;
        for (b, l) in &self.caller {
            if a >= *b && a < b + l {
                return Some(off + (a - b));
            }
            off += l;
        }
        None
    }

    fn c17_fail(&mut self, sig: &str, msg: String) {
        if self.c17.is_none() {
            self.c17 = Some((sig.to_string(), msg));
        }
    }

    /// may the scripted kernel touch these ranges at all? (inside the caller's buffers)
    fn ranges_safe(&self, ranges: &[(usize, usize)]) -> bool {
        ranges.iter().all(|(b, l)| {
            *l == 0
                || match (self.pos_of(*b), self.pos_of(b + l - 1)) {
                    (Some(p0), Some(p1)) => p1 == p0 + l - 1,
                    _ => false,
                }
        })
    }

    /// C17 oracle for one vectored inner call
    fn check_ranges(&mut self, what: &str, ranges: &[(usize, usize)]) -> bool {
        let mut last_end: Option<usize> = None;
        let moved = self.moved;
        for (i, (b, l)) in ranges.iter().enumerate() {
            if *l == 0 {
                continue;
            }
            let (Some(p0), Some(p1)) = (self.pos_of(*b), self.pos_of(b + l - 1)) else {
                self.c17_fail(
                    &format!("C17/{what}/range-outside-the-callers-buffers"),
                    format!("inner call #{}: entry {i} = ({b:#x}, {l}) is not inside one of the caller's buffers {:x?}", self.calls.len(), self.caller),
                );
                return false;
            };
            if p1 != p0 + l - 1 {
                self.c17_fail(
                    &format!("C17/{what}/range-spans-two-caller-buffers"),
                    format!("inner call #{}: entry {i} = ({b:#x}, {l})", self.calls.len()),
                );
                return false;
            }
            if p0 < moved {
                self.c17_fail(
                    &format!("C17/{what}/range-covers-bytes-already-transferred"),
                    format!("inner call #{}: entry {i} starts at position {p0} of the caller's data but {moved} bytes were already transferred", self.calls.len()),
                );
                return false;
            }
            if let Some(e) = last_end {
                if p0 < e {
                    self.c17_fail(
                        &format!("C17/{what}/ranges-overlap-or-out-of-order"),
                        format!("inner call #{}: entry {i} starts at position {p0}, previous entry ended at {e}", self.calls.len()),
                    );
                    return false;
                }
            }
            last_end = Some(p1 + 1);
        }
        true
    }

    fn next(&mut self) -> Resp {
        let r = self.script.get(self.pos).copied().unwrap_or(Resp::Move(255));
        self.pos += 1;
        r
    }

    /// the scripted kernel proper
    fn io(&mut self, what: &str, claimed: usize, ranges: Vec<(usize, usize)>, vectored: bool) -> isize {
        let _ = vectored;
        let _valid = self.check_ranges(what, &ranges);
        let safe = self.ranges_safe(&ranges);
        let offered: usize = ranges.iter().map(|r| r.1).sum();
        let resp = self.next();
        let (result, errno) = if !safe {
            self.refused = true;
            (-1, libc::EFAULT)
        } else {
            match resp {
                Resp::WouldBlock => (-1, libc::EAGAIN),
                Resp::Intr => (-1, libc::EINTR),
                Resp::Err(e) => (-1, ERRNOS[e as usize % ERRNOS.len()]),
                Resp::Eof => {
                    if self.reading {
                        self.eof_at = Some(self.stream_pos);
                        (0, 0)
                    } else {
                        (-1, libc::EPIPE)
                    }
                }
                Resp::Move(k) => {
                    let mut n = (k.max(1) as usize).min(offered);
                    if self.reading {
                        if let Some(e) = self.eof_at {
                            n = n.min(e.saturating_sub(self.stream_pos) as usize);
                        }
                    }
                    let mut left = n;
                    for (b, l) in &ranges {
                        if left == 0 {
                            break;
                        }
                        let take = left.min(*l);
                        for j in 0..take {
                            unsafe {
                                if self.reading {
                                    *((b + j) as *mut u8) = stream_byte(self.stream_pos);
                                    self.stream_pos += 1;
                                } else {
                                    self.sink.push(*((b + j) as *const u8));
                                }
                            }
                        }
                        left -= take;
                    }
                    self.moved += n;
                    (n as isize, 0)
                }
            }
        };
        if result < 0 {
            set_errno(errno);
        }
        self.calls.push(InnerCall { claimed, ranges, result, errno });
        result
    }
}

/// read `count` iovec entries at `ptr` the way a kernel would, but detect a count that
/// exceeds the array that was really built (C17) instead of faulting on it
fn read_iovecs(k: &mut Kernel, what: &str, ptr: *const iovec, count: usize) -> Vec<(usize, usize)> {
    let mut n = count;
    if let Some(size_of) = ALLOC_SIZE_OF.get() {
        if let Some(sz) = size_of(ptr as usize) {
            let have = sz / std::mem::size_of::<iovec>();
            if count > have {
                k.c17_fail(
                    &format!("C17/{what}/element-count-exceeds-the-array-passed"),
                    format!("inner call #{}: count {count} but the array at {ptr:p} is an allocation of {sz} bytes = {have} entries", k.calls.len()),
                );
                n = have;
            }
        }
    }
    let mut out = vec![];
    for i in 0..n {
        let e = unsafe { *ptr.add(i) };
        if e.iov_base as usize == POISON_WORD || e.iov_len == POISON_WORD {
            k.c17_fail(
                &format!("C17/{what}/element-count-exceeds-the-array-passed"),
                format!("inner call #{}: count {count} but entry {i} was never written (uninitialised memory)", k.calls.len()),
            );
            break;
        }
        out.push((e.iov_base as usize, e.iov_len));
    }
    out
}

extern "C" fn k_read(_fd: c_int, buf: *mut c_void, len: size_t) -> ssize_t {
    KERNEL.with(|k| k.borrow_mut().io("read", 1, vec![(buf as usize, len)], false))
}
extern "C" fn k_recv(_fd: c_int, buf: *mut c_void, len: size_t, _flags: c_int) -> ssize_t {
    KERNEL.with(|k| k.borrow_mut().io("recv", 1, vec![(buf as usize, len)], false))
}
extern "C" fn k_recvfrom(_fd: c_int, buf: *mut c_void, len: size_t, _flags: c_int, _a: *mut sockaddr, _l: *mut socklen_t) -> ssize_t {
    KERNEL.with(|k| k.borrow_mut().io("recvfrom", 1, vec![(buf as usize, len)], false))
}
extern "C" fn k_readv(_fd: c_int, iov: *const iovec, cnt: c_int) -> ssize_t {
    KERNEL.with(|k| {
        let mut k = k.borrow_mut();
        let r = read_iovecs(&mut k, "readv", iov, cnt.max(0) as usize);
        k.io("readv", cnt.max(0) as usize, r, true)
    })
}
extern "C" fn k_recvmsg(_fd: c_int, msg: *mut msghdr, _flags: c_int) -> ssize_t {
    KERNEL.with(|k| {
        let mut k = k.borrow_mut();
        let m = unsafe { *msg };
        let r = read_iovecs(&mut k, "recvmsg", m.msg_iov, m.msg_iovlen as usize);
        k.io("recvmsg", m.msg_iovlen as usize, r, true)
    })
}
extern "C" fn k_write(_fd: c_int, buf: *const c_void, len: size_t) -> ssize_t {
    KERNEL.with(|k| k.borrow_mut().io("write", 1, vec![(buf as usize, len)], false))
}
extern "C" fn k_send(_fd: c_int, buf: *const c_void, len: size_t, _flags: c_int) -> ssize_t {
    KERNEL.with(|k| k.borrow_mut().io("send", 1, vec![(buf as usize, len)], false))
}
extern "C" fn k_sendto(_fd: c_int, buf: *const c_void, len: size_t, _flags: c_int, _a: *const sockaddr, _l: socklen_t) -> ssize_t {
    KERNEL.with(|k| k.borrow_mut().io("sendto", 1, vec![(buf as usize, len)], false))
}
extern "C" fn k_writev(_fd: c_int, iov: *const iovec, cnt: c_int) -> ssize_t {
    KERNEL.with(|k| {
        let mut k = k.borrow_mut();
        let r = read_iovecs(&mut k, "writev", iov, cnt.max(0) as usize);
        k.io("writev", cnt.max(0) as usize, r, true)
    })
}
extern "C" fn k_sendmsg(_fd: c_int, msg: *const msghdr, _flags: c_int) -> ssize_t {
    KERNEL.with(|k| {
        let mut k = k.borrow_mut();
        let m = unsafe { *msg };
        let r = read_iovecs(&mut k, "sendmsg", m.msg_iov, m.msg_iovlen as usize);
        k.io("sendmsg", m.msg_iovlen as usize, r, true)
    })
}
/// accept/connect: script Move = success, everything else as for data calls
fn k_ctl(what: &str, ok: c_int) -> c_int {
    KERNEL.with(|k| {
        let mut k = k.borrow_mut();
        let resp = k.next();
        let (r, e) = match resp {
            Resp::Move(_) | Resp::Eof => (ok, 0),
            Resp::WouldBlock => (-1, if what == "connect" { libc::EINPROGRESS } else { libc::EAGAIN }),
            Resp::Intr => (-1, libc::EINTR),
            Resp::Err(x) => (-1, ERRNOS[x as usize % ERRNOS.len()]),
        };
        if r < 0 {
            set_errno(e);
        }
        k.calls.push(InnerCall { claimed: 0, ranges: vec![], result: r as isize, errno: e });
        r
    })
}
extern "C" fn k_accept(_fd: c_int, _a: *mut sockaddr, _l: *mut socklen_t) -> c_int {
    k_ctl("accept", 4242)
}
extern "C" fn k_connect(_fd: c_int, _a: *const sockaddr, _l: socklen_t) -> c_int {
    k_ctl("connect", 0)
}

static F_READ: extern "C" fn(c_int, *mut c_void, size_t) -> ssize_t = k_read;
static F_RECV: extern "C" fn(c_int, *mut c_void, size_t, c_int) -> ssize_t = k_recv;
static F_RECVFROM: extern "C" fn(c_int, *mut c_void, size_t, c_int, *mut sockaddr, *mut socklen_t) -> ssize_t = k_recvfrom;
static F_READV: extern "C" fn(c_int, *const iovec, c_int) -> ssize_t = k_readv;
static F_RECVMSG: extern "C" fn(c_int, *mut msghdr, c_int) -> ssize_t = k_recvmsg;
static F_WRITE: extern "C" fn(c_int, *const c_void, size_t) -> ssize_t = k_write;
static F_SEND: extern "C" fn(c_int, *const c_void, size_t, c_int) -> ssize_t = k_send;
static F_SENDTO: extern "C" fn(c_int, *const c_void, size_t, c_int, *const sockaddr, socklen_t) -> ssize_t = k_sendto;
static F_WRITEV: extern "C" fn(c_int, *const iovec, c_int) -> ssize_t = k_writev;
static F_SENDMSG: extern "C" fn(c_int, *const msghdr, c_int) -> ssize_t = k_sendmsg;
static F_ACCEPT: extern "C" fn(c_int, *mut sockaddr, *mut socklen_t) -> c_int = k_accept;
static F_CONNECT: extern "C" fn(c_int, *const sockaddr, socklen_t) -> c_int = k_connect;

// two socketpairs per thread: [0] no timeout, [1] 30 ms SO_RCVTIMEO/SO_SNDTIMEO set with
// the native setsockopt before any hooked call touches the descriptor
thread_local! {
    static SOCKS: [c_int; 2] = {
        let mut a = [0 as c_int; 2];
        let mut b = [0 as c_int; 2];
        unsafe {
            assert_eq!(0, libc::socketpair(libc::AF_UNIX, libc::SOCK_STREAM, 0, a.as_mut_ptr()));
            assert_eq!(0, libc::socketpair(libc::AF_UNIX, libc::SOCK_STREAM, 0, b.as_mut_ptr()));
            let tv = libc::timeval { tv_sec: 0, tv_usec: 30_000 };
            for opt in [libc::SO_RCVTIMEO, libc::SO_SNDTIMEO] {
                assert_eq!(0, libc::setsockopt(b[0], libc::SOL_SOCKET, opt, std::ptr::from_ref(&tv).cast(), std::mem::size_of::<libc::timeval>() as socklen_t));
            }
        }
        [a[0], b[0]]
    };
}

#[derive(Debug)]
pub struct Obs {
    pub ret: isize,
    pub errno: c_int,
    pub elapsed: Duration,
    pub flags_before: c_int,
    pub flags_after: c_int,
    pub kernel: Kernel,
    /// reads: the caller's buffers after the call, concatenated; writes: the data offered
    pub concat: Vec<u8>,
    pub total_len: usize,
}

fn fl(fd: c_int) -> c_int {
    unsafe { libc::fcntl(fd, libc::F_GETFL) }
}

/// perform the hooked call of `c` on the calling thread
pub fn run_call(c: &Case) -> Obs {
    let fd = SOCKS.with(|s| s[usize::from(c.timeout)]);
    // blocking mode as the caller wants it
    unsafe {
        let f = libc::fcntl(fd, libc::F_GETFL);
        let want = if c.nonblock { f | libc::O_NONBLOCK } else { f & !libc::O_NONBLOCK };
        libc::fcntl(fd, libc::F_SETFL, want);
    }
    let lens: Vec<usize> = if c.call.is_vectored() {
        c.bufs.iter().map(|l| *l as usize).collect()
    } else {
        vec![c.bufs.iter().map(|l| *l as usize).sum::<usize>().min(60)]
    };
    let reading = c.call.is_read();
    let mut bufs: Vec<Vec<u8>> = vec![];
    let mut j = 0;
    for l in &lens {
        // +1 so that a zero-length buffer still has a distinct, valid address
        let mut b = vec![SENTINEL; *l + 1];
        if !reading {
            for x in b.iter_mut().take(*l) {
                *x = data_byte(j);
                j += 1;
            }
        }
        bufs.push(b);
    }
    let total_len: usize = lens.iter().sum();
    let mut iov: Vec<iovec> = bufs.iter_mut().zip(&lens).map(|(b, l)| iovec { iov_base: b.as_mut_ptr().cast(), iov_len: *l }).collect();
    KERNEL.with(|k| {
        *k.borrow_mut() = Kernel {
            script: c.script.clone(),
            reading,
            eof_at: c.eof_at.map(u64::from),
            caller: bufs.iter().zip(&lens).map(|(b, l)| (b.as_ptr() as usize, *l)).collect(),
            ..Kernel::default()
        };
    });
    let flags_before = fl(fd);
    if let Some(t) = ALLOC_TRACK.get() {
        t(true);
    }
    set_errno(0);
    let t0 = Instant::now();
    let ret: isize = unsafe {
        match c.call {
            Call::Read => hooked::read(Some(&F_READ), fd, iov[0].iov_base, iov[0].iov_len),
            Call::Recv => hooked::recv(Some(&F_RECV), fd, iov[0].iov_base, iov[0].iov_len, 0),
            Call::Recvfrom => hooked::recvfrom(Some(&F_RECVFROM), fd, iov[0].iov_base, iov[0].iov_len, 0, std::ptr::null_mut(), std::ptr::null_mut()),
            Call::Readv => hooked::readv(Some(&F_READV), fd, iov.as_ptr(), iov.len() as c_int),
            Call::Recvmsg => {
                let mut m: msghdr = std::mem::zeroed();
                m.msg_iov = iov.as_mut_ptr();
                m.msg_iovlen = iov.len();
                hooked::recvmsg(Some(&F_RECVMSG), fd, &raw mut m, 0)
            }
            Call::Write => hooked::write(Some(&F_WRITE), fd, iov[0].iov_base, iov[0].iov_len),
            Call::Send => hooked::send(Some(&F_SEND), fd, iov[0].iov_base, iov[0].iov_len, 0),
            Call::Sendto => hooked::sendto(Some(&F_SENDTO), fd, iov[0].iov_base, iov[0].iov_len, 0, std::ptr::null(), 0),
            Call::Writev => hooked::writev(Some(&F_WRITEV), fd, iov.as_ptr(), iov.len() as c_int),
            Call::Sendmsg => {
                let mut m: msghdr = std::mem::zeroed();
                m.msg_iov = iov.as_mut_ptr();
                m.msg_iovlen = iov.len();
                hooked::sendmsg(Some(&F_SENDMSG), fd, &raw const m, 0)
            }
            Call::Accept => hooked::accept(Some(&F_ACCEPT), fd, std::ptr::null_mut(), std::ptr::null_mut()) as isize,
            Call::Connect => {
                let a: libc::sockaddr_un = std::mem::zeroed();
                hooked::connect(Some(&F_CONNECT), fd, std::ptr::from_ref(&a).cast(), std::mem::size_of::<libc::sockaddr_un>() as socklen_t) as isize
            }
        }
    };
    let errno = get_errno();
    let elapsed = t0.elapsed();
    if let Some(t) = ALLOC_TRACK.get() {
        t(false);
    }
    let flags_after = fl(fd);
    let kernel = KERNEL.with(|k| std::mem::take(&mut *k.borrow_mut()));
    let mut concat = vec![];
    for (b, l) in bufs.iter().zip(&lens) {
        concat.extend_from_slice(&b[..*l]);
    }
    Obs { ret, errno, elapsed, flags_before, flags_after, kernel, concat, total_len }
}

/// the scripted kernel's state is thread-local; coroutines of different cases must not
/// interleave on the event-loop thread, so task-path cases run one at a time
static TASK_PATH: std::sync::Mutex<()> = std::sync::Mutex::new(());

fn run_case(c: &Case) -> Result<Obs, String> {
    if c.in_task {
        let _g = TASK_PATH.lock().unwrap_or_else(|e| e.into_inner());
        let (tx, rx) = std::sync::mpsc::channel();
        let c2 = c.clone();
        let h = EventLoops::submit_task(
            None,
            move |_| {
                let _ = tx.send(run_call(&c2));
                None
            },
            None,
            None,
        );
        let obs = rx
            .recv_timeout(Duration::from_secs(8))
            .map_err(|e| format!("the hooked {} call made inside a coroutine did not return within 8 s ({e}); later coroutine-path cases of this run are unreliable", c.call.name()));
        let _ = h.timeout_join(Duration::from_millis(200));
        obs
    } else {
        Ok(run_call(c))
    }
}

#[derive(Debug, Clone, Copy, PartialEq, Eq)]
pub enum Which {
    C16,
    C17,
    C18,
}

fn last_failing_errno(k: &Kernel) -> Option<c_int> {
    k.calls.iter().rev().find(|c| c.result < 0).map(|c| c.errno)
}

/// all three oracles over one observation; `which` selects whose verdict counts
pub fn judge(c: &Case, obs: &Obs, which: Which) -> Outcome {
    let k = &obs.kernel;
    let name = c.call.name();
    let mut o = Outcome::pass();
    let n_inner = k.calls.len();
    let partial_inside_later_iovec = c.call.is_vectored() && {
        // some Move ended strictly inside an iovec other than the first
        let mut acc = 0usize;
        let mut hit = false;
        for call in &k.calls {
            if call.result > 0 {
                acc += call.result as usize;
                let mut edge = 0usize;
                for (i, l) in c.bufs.iter().enumerate() {
                    let l = *l as usize;
                    if acc > edge && acc < edge + l && i > 0 {
                        hit = true;
                    }
                    edge += l;
                }
            }
        }
        hit
    };
    let fail_after_partial = {
        let mut seen = false;
        let mut hit = false;
        for call in &k.calls {
            if call.result > 0 {
                seen = true;
            } else if seen && (call.result < 0 || call.result == 0) {
                hit = true;
            }
        }
        hit
    };
    let first_wouldblock = k.calls.iter().find(|x| !(x.result < 0 && x.errno == libc::EINTR)).is_some_and(|x| x.result < 0 && (x.errno == libc::EAGAIN || x.errno == libc::EINPROGRESS));
    let errorish = obs.ret < 0;
    match which {
        Which::C16 => {
            o.nontrivial = c.call.is_data() && (partial_inside_later_iovec || fail_after_partial);
        }
        Which::C17 => {
            o.nontrivial = c.call.is_vectored() && k.calls.iter().filter(|x| x.claimed >= 1).count() >= 2 && c.bufs.len() >= 2;
        }
        Which::C18 => {
            o.nontrivial = (c.nonblock && first_wouldblock) || (!c.nonblock && errorish);
        }
    }
    o = o
        .class_if(partial_inside_later_iovec, "partial-ends-inside-a-later-iovec")
        .class_if(fail_after_partial, "wouldblock/intr/eof/error-after-a-partial-transfer")
        .class_if(obs.total_len == 0 && c.call.is_data(), "zero-length-request")
        .class_if(c.in_task, "called-inside-a-coroutine")
        .class_if(c.nonblock, "caller-set-O_NONBLOCK")
        .class_if(c.timeout, "socket-timeout-30ms")
        .class_if(c.call.is_vectored(), "vectored")
        .class_if(n_inner >= 2, "2+inner-calls");

    // ---- C17: recorded by the scripted kernel itself
    if which == Which::C17 {
        if let Some((s, m)) = &k.c17 {
            o.set_fail(s.clone(), m.clone());
        }
        return o;
    }

    // ---- C18
    if which == Which::C18 {
        if obs.flags_after != obs.flags_before {
            o.set_fail(
                format!("C18/{name}/blocking-mode-not-restored"),
                format!("F_GETFL before {:#x}, after {:#x} (O_NONBLOCK = {:#x}); call returned {} errno {}", obs.flags_before, obs.flags_after, libc::O_NONBLOCK, obs.ret, obs.errno),
            );
            return o;
        }
        if c.nonblock && first_wouldblock {
            let non_intr = k.calls.iter().filter(|x| !(x.result < 0 && x.errno == libc::EINTR)).count();
            let want_errno = if c.call == Call::Connect { libc::EINPROGRESS } else { libc::EAGAIN };
            if !(obs.ret == -1 && obs.errno == want_errno && non_intr == 1) {
                o.set_fail(
                    format!("C18/{name}/nonblocking-descriptor-waited-instead-of-EAGAIN"),
                    format!(
                        "the caller set O_NONBLOCK and the first inner call would block, but the hooked call returned {} (errno {}) after {} inner calls and {:?}",
                        obs.ret, obs.errno, non_intr, obs.elapsed
                    ),
                );
            } else if obs.elapsed > Duration::from_millis(9) {
                // the runtime's smallest wait is one 10 ms slice; judged only if it repeats
                o.transient = true;
                o.set_fail(
                    format!("C18/{name}/nonblocking-descriptor-returned-EAGAIN-late"),
                    format!(
                        "the caller set O_NONBLOCK and the first inner call would block, but the hooked call returned {} (errno {}) after {} inner calls and {:?}",
                        obs.ret, obs.errno, non_intr, obs.elapsed
                    ),
                );
            }
        }
        return o;
    }

    // ---- C16
    if !c.call.is_data() {
        return o;
    }
    if k.refused {
        // an inner request pointed outside the caller's buffers and was refused by the
        // scripted kernel (C17's business); the byte accounting of such a call is not judged
        o.excluded = Some("inner-request-outside-the-callers-buffers(C17)");
        return o;
    }
    let moved = k.moved;
    if moved > 0 {
        if obs.ret != moved as isize {
            let mech = if obs.ret == -1 {
                match k.calls.last() {
                    Some(l) if l.result < 0 && l.errno == libc::EAGAIN => "returns-minus-one-after-bytes-moved(timeout)",
                    _ => "returns-minus-one-after-bytes-moved(error)",
                }
            } else if obs.ret == 0 {
                "returns-zero-after-bytes-moved(eof)"
            } else if k.calls.iter().rev().find(|x| x.result > 0).is_some_and(|x| x.result == obs.ret) {
                "returns-last-inner-count-instead-of-total"
            } else {
                "return-differs-from-bytes-moved"
            };
            o.set_fail(
                format!("C16/{name}/{mech}"),
                format!("the kernel moved {moved} byte(s) over {n_inner} inner call(s) {:?} but the hooked call returned {} (errno {})", k.calls.iter().map(|x| x.result).collect::<Vec<_>>(), obs.ret, obs.errno),
            );
            return o;
        }
    } else {
        let eof = k.calls.last().is_some_and(|l| l.result == 0);
        let want: (isize, Option<c_int>) = if obs.total_len == 0 || eof {
            (0, None)
        } else {
            (-1, last_failing_errno(k))
        };
        if obs.ret != want.0 || (want.0 == -1 && want.1.is_some() && Some(obs.errno) != want.1) {
            let mech = if obs.total_len == 0 { "zero-length-request-does-not-return-zero" } else if eof { "eof-not-reported-as-zero" } else { "wrong-error-report" };
            o.set_fail(
                format!("C16/{name}/{mech}"),
                format!("no byte was moved (request length {}, inner calls {:?}); expected {} {:?}, the hooked call returned {} (errno {})",
                    obs.total_len, k.calls.iter().map(|x| (x.result, x.errno)).collect::<Vec<_>>(), want.0, want.1, obs.ret, obs.errno),
            );
            return o;
        }
    }
    // placement
    if c.call.is_read() {
        for (i, b) in obs.concat.iter().enumerate() {
            let want = if i < moved { stream_byte(i as u64) } else { SENTINEL };
            if *b != want {
                o.set_fail(
                    format!("C16/{name}/bytes-misplaced-in-the-callers-buffers"),
                    format!("position {i} of the caller's buffers holds {b:#x}, expected {want:#x} ({moved} bytes moved)"),
                );
                return o;
            }
        }
    } else {
        let want: Vec<u8> = obs.concat[..moved.min(obs.concat.len())].to_vec();
        if k.sink != want {
            o.set_fail(
                format!("C16/{name}/peer-received-wrong-bytes"),
                format!("the peer received {:?}, expected the first {moved} bytes of the caller's data {:?}", k.sink, want),
            );
        }
    }
    o
}

pub fn resp(allow_wb: u32) -> impl Strategy<Value = Resp> {
    prop_oneof![
        8 => (1u8..14).prop_map(Resp::Move),
        allow_wb => Just(Resp::WouldBlock),
        2 => Just(Resp::Intr),
        1 => Just(Resp::Eof),
        1 => (0u8..4).prop_map(Resp::Err),
    ]
}

pub fn strategy(which: Which) -> impl Strategy<Value = Case> {
    let calls = match which {
        Which::C17 => prop_oneof![Just(Call::Readv), Just(Call::Recvmsg), Just(Call::Writev), Just(Call::Sendmsg)].boxed(),
        Which::C16 => prop_oneof![
            1 => Just(Call::Read), 1 => Just(Call::Recv), 1 => Just(Call::Recvfrom),
            3 => Just(Call::Readv), 3 => Just(Call::Recvmsg),
            1 => Just(Call::Write), 1 => Just(Call::Send), 1 => Just(Call::Sendto),
            3 => Just(Call::Writev), 3 => Just(Call::Sendmsg),
        ]
        .boxed(),
        Which::C18 => prop_oneof![
            Just(Call::Read), Just(Call::Recv), Just(Call::Recvfrom), Just(Call::Readv), Just(Call::Recvmsg),
            Just(Call::Write), Just(Call::Send), Just(Call::Sendto), Just(Call::Writev), Just(Call::Sendmsg),
            Just(Call::Accept), Just(Call::Connect),
        ]
        .boxed(),
    };
    let nonblock = match which {
        Which::C18 => prop_oneof![1 => Just(false), 1 => Just(true)].boxed(),
        _ => prop_oneof![9 => Just(false), 1 => Just(true)].boxed(),
    };
    (
        calls,
        proptest::collection::vec(prop_oneof![1 => Just(0u8), 6 => 1u8..=12], 1..=5),
        proptest::collection::vec(resp(1), 0..8),
        nonblock,
        prop_oneof![12 => Just(false), 1 => Just(true)],
        prop_oneof![14 => Just(false), 1 => Just(true)],
        prop_oneof![3 => Just(None), 1 => (0u8..40).prop_map(Some)],
    )
        .prop_map(move |(call, bufs, mut script, nonblock, timeout, in_task, eof_at)| {
            // each scripted WouldBlock costs one real 10 ms wait slice: at most 2 (4 on the
            // timeout socket, so that its 30 ms limit can expire)
            let cap = if timeout { 4 } else { 2 };
            let mut wb = 0;
            for r in script.iter_mut() {
                if *r == Resp::WouldBlock {
                    wb += 1;
                    if wb > cap {
                        *r = Resp::Move(3);
                    }
                }
            }
            if which == Which::C18 && nonblock {
                // make "first inner call would block" common
                if let Some(f) = script.first_mut() {
                    if matches!(f, Resp::Move(_)) && bufs[0] % 2 == 0 {
                        *f = Resp::WouldBlock;
                    }
                }
            }
            Case { call, bufs, script, nonblock, timeout, in_task, eof_at }
        })
}

pub fn exec(c: &Case, which: Which) -> Outcome {
    let prop = match which {
        Which::C16 => "C16",
        Which::C17 => "C17",
        Which::C18 => "C18",
    };
    vkit::inflight::mark(prop, "sockio", &serde_json::to_string(c).unwrap_or_default());
    let r = match vkit::hang::guard("sockio", &format!("{prop}/{}/hooked-call-did-not-return", c.call.name()), || serde_json::to_string(c).unwrap_or_default(), || run_case(c)) {
        Ok(obs) => {
            let mut o = judge(c, &obs, which);
            // timing-only deviations must repeat 3 times in a row to count (DESIGN.md §2.5)
            if o.transient && o.fail.is_some() {
                let mut again = 0;
                for _ in 0..3 {
                    if let Ok(obs2) = run_case(c) {
                        let o2 = judge(c, &obs2, which);
                        if o2.transient && o2.fail.is_some() {
                            again += 1;
                        }
                    }
                }
                if again < 3 {
                    o.fail = None;
                } else {
                    o.transient = false;
                }
            }
            o
        }
        Err(e) => Outcome::fail(format!("{prop}/{}/hooked-call-did-not-return(coroutine)", c.call.name()), e),
    };
    vkit::inflight::clear();
    r
}

pub fn init_runtime() {
    let mut cfg = Config::single();
    cfg.set_hook(false);
    EventLoops::init(&cfg);
}

pub fn main_for(args: &Args, which: Which) -> i32 {
    let prop = match which {
        Which::C16 => "C16",
        Which::C17 => "C17",
        Which::C18 => "C18",
    };
    init_runtime();
    vkit::hang::start_monitor(prop, args.tier, args.seed, Duration::from_secs(30));
    if let Some(p) = &args.replay {
        let (_, _, case) = vkit::load_replay(p);
        let c: Case = serde_json::from_value(case).expect("case");
        let o = exec(&c, which);
        vkit::inflight::cleanup(prop);
        return vkit::replay_verdict(prop, p, &o);
    }
    let mut ev = Evidence::new(prop, args, "fault_enumeration");
    ev.assume("the scripted inner function stands for the kernel: success leaves errno untouched, failure sets it, a transfer moves min(k, offered) >= 1 bytes in order; real AF_UNIX socketpairs carry the descriptor-level behaviour (fstat, fcntl, getsockopt, epoll)");
    ev.assume("a scripted WouldBlock costs one real <=10 ms wait slice of the runtime, so scripts carry at most 2 of them (4 on the 30 ms-timeout socket)");
    if which == Which::C17 && ALLOC_SIZE_OF.get().is_none() {
        ev.inconclusive("the poisoning allocator is not installed (run through the vsock binary)");
    }
    ev.add(vkit::run_regress(prop, move |_s, case| exec(&serde_json::from_value(case).expect("case"), which)));
    if ev.has_violations() {
        vkit::inflight::cleanup(prop);
        return ev.finish();
    }
    let rule = match which {
        Which::C16 => "hooked call in {read,recv,recvfrom,readv,recvmsg,write,send,sendto,writev,sendmsg} x 1..5 buffers of 0..12 bytes x script of <=8 kernel responses (partial transfer, would-block, EINTR, EOF, errno) x blocking/non-blocking x optional 30 ms socket timeout x thread/coroutine caller; non-trivial = a partial transfer ends strictly inside an iovec other than the first, or a would-block/EINTR/EOF/error follows a partial transfer",
        Which::C17 => "vectored hooked calls (readv, recvmsg, writev, sendmsg) over the same case space; every inner request is checked by the scripted kernel (ranges inside the caller's buffers, in the untransferred suffix, ordered, disjoint; element count vs. the array really allocated, via a poisoning allocator); non-trivial = >=2 inner calls and >=2 iovecs",
        Which::C18 => "all hooked socket calls incl. accept/connect x caller's blocking mode x scripts; F_GETFL before == after always; O_NONBLOCK + first inner would-block => immediate -1/EAGAIN with one inner call; non-trivial = (O_NONBLOCK and the first inner call would block) or an error/timeout outcome on a blocking descriptor",
    };
    let st = vkit::run_prop(
        &RunCfg { property: prop, sub: "sockio", rule, seed: args.seed, cases: args.cases(6_000, 200_000), shards: 16, max_shrink_iters: 1500 },
        move || strategy(which),
        move |c| exec(c, which),
    );
    ev.add(st);
    vkit::inflight::cleanup(prop);
    ev.finish()
}

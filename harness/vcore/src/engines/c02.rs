//! C02 — joining a task returns that task's own result once it finishes (engine: `rt`).
//!
//! Case: 1..3 event loops and a history of submissions (values, `None`, `&'static str` and
//! `String` panics, delays, spins, hooked sleeps, gates), joins on helper threads and from inside other tasks with
//! generated timeouts — issued before or after completion, or held between the waiter's
//! first look at the results and its registration until the task has finished (hook H1) —
//! releases and sleeps.
//! Oracle per join (tasks that were never cancelled):
//!  (a) a value is that task's own value (`None` only for the task that returns `None`), an
//!      error is that task's own panic text;
//!  (b) `TimedOut` only if the body had not finished 25 ms (150 ms for a panicking body, whose
//!      result exists only after unwinding) before the deadline;
//!  (c) the join returns within 250 ms of max(body end, call) — confirmed by repeat.

use super::rt::{self, Body, Case, Log, Op, Run};
use proptest::prelude::*;
use std::time::Duration;
use vkit::{Args, Evidence, Outcome, RunCfg};

fn body() -> impl Strategy<Value = Body> {
    prop_oneof![
        3 => Just(Body::Return),
        1 => Just(Body::ReturnNone),
        2 => Just(Body::PanicStatic),
        2 => Just(Body::PanicString),
        3 => prop_oneof![3 => 0u8..50, 2 => 50u8..200].prop_map(Body::Delay),
        1 => (0u8..10).prop_map(Body::Spin),
        1 => (1u8..20).prop_map(Body::Usleep),
        2 => Just(Body::GateSuspended),
        4 => (0u8..4, prop_oneof![3 => 30u16..120, 1 => 120u16..1500]).prop_map(|(back, timeout_ms)| Body::JoinEarlier { back, timeout_ms }),
    ]
}

pub fn strategy(min_loops: u8, max_loops: u8) -> impl Strategy<Value = Case> {
    let timeout = prop_oneof![Just(30u16), 30u16..300, 300u16..3000];
    let op = prop_oneof![
        5 => (body(), 0i8..6).prop_map(|(body, prio)| Op::Submit { body, prio }),
        4 => (any::<u16>(), timeout.clone()).prop_map(|(task, timeout_ms)| Op::Join { task, timeout_ms }),
        3 => (any::<u16>(), 200u16..3000).prop_map(|(task, timeout_ms)| Op::JoinLate { task, timeout_ms }),
        2 => (0u8..40).prop_map(Op::Sleep),
        2 => any::<u16>().prop_map(|task| Op::Release { task }),
    ];
    (min_loops..=max_loops, 1u8..4, proptest::collection::vec(op, 2..14)).prop_map(|(loops, max_size, ops)| Case { loops, max_size, ops })
}

const PROMPT_NS: u64 = 250_000_000;

pub fn judge(c: &Case, run: Run) -> Outcome {
    let mut o = Outcome::pass();
    let pre = if c.loops >= 2 { "C02/2+loops" } else { "C02" };
    let l: Log = match run {
        Run::Log(l) => l,
        Run::Broken(sig, msg, _) => {
            o.set_fail(format!("{pre}/{sig}"), msg);
            return o;
        }
        Run::Excluded(why) => {
            o.excluded = Some(why);
            return o;
        }
    };
    let held = l.joins.iter().filter(|j| j.held).count();
    let panics = l.joins.iter().filter(|j| matches!(l.tasks[j.task].body, Body::PanicStatic | Body::PanicString)).count();
    let used = rt::threads_used(&l);
    o.nontrivial = !l.joins.is_empty() && (held > 0 || panics > 0 || used >= 2);
    o = o
        .class_if(held > 0, "completion-fell-between-first-check-and-registration")
        .class_if(l.joins.iter().any(|j| j.in_task), "join-made-from-inside-a-task")
        .class_if(panics > 0, "joined-task-panicked")
        .class_if(used >= 2, "tasks-ran-on-2+loop-threads")
        .class_if(l.joins.iter().any(|j| j.kind == "timeout"), "some-join-timed-out")
        .class_if(l.joins.iter().any(|j| l.tasks[j.task].ended != 0 && l.tasks[j.task].ended < j.called), "join-after-completion")
        .class_if(l.joins.iter().any(|j| l.tasks[j.task].ended == 0 || l.tasks[j.task].ended > j.called), "join-before-completion");
    // several joins on one task: only the first to return can get the result (the result is
    // taken); judge a task's joins only when it has exactly one
    let mut per_task = std::collections::HashMap::new();
    for j in &l.joins {
        *per_task.entry(j.task).or_insert(0usize) += 1;
    }
    for j in &l.joins {
        if per_task[&j.task] != 1 {
            continue;
        }
        let t = &l.tasks[j.task];
        let deadline = j.called + j.timeout_ms * 1_000_000;
        let what = format!("join (timeout {} ms{}{}) on task {} {:?}", j.timeout_ms, if j.held { ", waiter held until the task had finished" } else { "" }, if j.in_task { ", made from inside another task" } else { "" }, t.k, t.body);
        match j.kind.as_str() {
            "value" => {
                let ok = !matches!(t.body, Body::ReturnNone | Body::PanicStatic | Body::PanicString) && j.v == Some(rt::expected_value(t.k) as u64);
                if !ok {
                    o.set_fail(format!("{pre}/join-returned-a-foreign-value"), format!("{what} returned the value {:?}, the task's own outcome is {}", j.v, own(t)));
                    return o;
                }
            }
            "none" => {
                if t.body != Body::ReturnNone {
                    o.set_fail(format!("{pre}/join-returned-a-foreign-value"), format!("{what} returned None, the task's own outcome is {}", own(t)));
                    return o;
                }
            }
            "error" => {
                let text = rt::panic_text(t.k);
                let ok = match t.body {
                    Body::PanicStatic => j.m == text,
                    Body::PanicString => j.m.contains(&text),
                    _ => false,
                };
                if !ok {
                    let kind = if matches!(t.body, Body::PanicStatic | Body::PanicString) { "panic-message-not-the-tasks-own" } else { "join-returned-a-foreign-error" };
                    o.set_fail(format!("{pre}/{kind}"), format!("{what} returned the error {:?}, the task's own outcome is {}", j.m, own(t)));
                    return o;
                }
            }
            "timeout" => {
                // `ended` is stamped inside the body; the result exists only after the runtime
                // has taken over again -- for a panicking body after the unwinder has run (the
                // first panic of a process costs milliseconds of CPU, many more on a loaded host)
                let grace: u64 = if matches!(t.body, Body::PanicStatic | Body::PanicString) { 150_000_000 } else { 25_000_000 };
                if t.ended != 0 && t.ended + grace < deadline {
                    o.set_fail(
                        format!("{pre}/join-timed-out-although-the-task-had-finished"),
                        format!("{what} timed out although the body had finished {} ms before the deadline (ran on {})", (deadline - t.ended) / 1_000_000, t.thread),
                    );
                    return o;
                }
            }
            _ => {
                o.set_fail(format!("{pre}/join-failed"), format!("{what} failed: {}", j.m));
                return o;
            }
        }
        // a waiter that is itself a task helps with the queue while it waits and may be busy
        // with another task when the result arrives: no promptness claim for it
        if j.kind != "timeout" && t.ended != 0 && !j.in_task {
            let due = t.ended.max(j.called) + PROMPT_NS;
            if j.returned > due {
                o.set_fail(
                    format!("{pre}/join-returned-late"),
                    format!("{what} returned {} ms after the task had finished and the call was made", (j.returned - t.ended.max(j.called)) / 1_000_000),
                );
                return o;
            }
        }
    }
    o
}

fn own(t: &rt::TaskLog) -> String {
    match t.body {
        Body::ReturnNone => "None".into(),
        Body::PanicStatic | Body::PanicString => format!("panic {:?}", rt::panic_text(t.k)),
        _ => format!("Some({})", rt::expected_value(t.k)),
    }
}

pub fn exec_once(c: &Case) -> Outcome {
    judge(c, rt::run_case(c, Duration::from_secs(90)))
}

pub fn exec(c: &Case) -> Outcome {
    vkit::timing::confirm_repeat(exec_once(c), |s| s.ends_with("/join-returned-late"), || exec_once(c), 3)
}

pub fn main(args: &Args) -> i32 {
    if let Some(p) = &args.replay {
        let (_, _, case) = vkit::load_replay(p);
        return vkit::replay_verdict("C02", p, &exec(&serde_json::from_value(case).expect("case")));
    }
    let mut ev = Evidence::new("C02", args, "exploration");
    ev.assume("a join is judged only when it is the only join on its task (the result is consumed by the first); tasks that were cancelled are not judged here");
    ev.assume("promptness bound 250 ms after max(body end, call), confirmed by 3 re-executions; 'timed out although finished' needs the body to have ended >= 25 ms (panicking body: 150 ms) before the deadline");
    ev.assume("two or more event loops are judged under their own signature prefix (see known_findings.json)");
    ev.add(vkit::run_regress("C02", |_s, case| exec(&serde_json::from_value(case).expect("case"))));
    if ev.has_violations() {
        return ev.finish();
    }
    let rule = "fresh child per case: event loops, 2..13 ops out of submit (value/None/static+String panic/delay/spin/hooked sleep/gate), join and held join (timeouts 30 ms .. 3 s), join made by a task body, release, sleep; non-trivial = a join whose task finished between the waiter's first check and its registration, or a joined task panicked, or tasks ran on >= 2 loop threads";
    ev.add(vkit::run_prop(
        &RunCfg { property: "C02", sub: "1-loop", rule, seed: args.seed, cases: args.cases(500, 6_000), shards: 12, max_shrink_iters: 80 },
        || strategy(1, 1),
        exec,
    ));
    ev.add(vkit::run_prop(
        &RunCfg { property: "C02", sub: "2+loops", rule, seed: args.seed, cases: args.cases(150, 2_000), shards: 12, max_shrink_iters: 40 },
        || strategy(2, 3),
        exec,
    ));
    ev.finish()
}

//! Runtime-in-a-child engine shared by C01, C02 and C13 (DESIGN.md §3.4).
//!
//! One fresh child per generated case. The child initialises `EventLoops` with the generated
//! configuration and interprets a history of driver operations: submissions (single, or
//! bursts from several threads behind a barrier), joins on helper threads (plain, or held at
//! the hook point between the waiter's first look and its registration until the task has
//! finished), cancels (optionally held between the running-coroutine lookup and the signal),
//! gate releases and sleeps. Every task body counts its executions and stamps start/end
//! time and thread. At the end all gates are released, the child waits for quiescence
//! (progress based) and runs sentinels on every loop. The log goes to the parent, where the
//! oracle of the property that generated the case judges it.

use open_coroutine_core::common::now;
use open_coroutine_core::config::Config;
use open_coroutine_core::net::join::JoinHandle;
use open_coroutine_core::net::EventLoops;
use open_coroutine_core::scheduler::SchedulableSuspender;
use open_coroutine_core::syscall as hooked;
use serde::{Deserialize, Serialize};
use serde_json::{json, Value};
use std::collections::HashMap;
use std::sync::atomic::{AtomicBool, AtomicU64, Ordering};
use std::sync::{Arc, Barrier, Mutex};
use std::time::{Duration, Instant};
use vkit::child::{self, ChildResult, ChildSpec, End};

#[derive(Debug, Clone, Copy, Serialize, Deserialize, PartialEq)]
pub enum Body {
    Return,
    ReturnNone,
    /// panic with a `&'static str` payload unique to the task
    PanicStatic,
    /// panic with a formatted `String` payload unique to the task
    PanicString,
    /// suspend for that many ms, then return
    Delay(u8),
    /// compute for that many ms without yielding, then return
    Spin(u8),
    /// hooked usleep for that many ms, then return
    Usleep(u8),
    /// suspend in 1 ms steps until released (released automatically at the end)
    GateSuspended,
    /// compute without yielding until released (auto-release after 150 ms)
    GateSpinning,
    /// compute without yielding until released (auto-release after 150 ms), then suspend
    /// for that many ms, then return
    GateSpinThenDelay(u8),
    /// join (with that timeout) the task submitted `back + 1` places earlier, from inside this
    /// task: the waiter is a pool coroutine and helps with the queue while it waits
    JoinEarlier { back: u8, timeout_ms: u16 },
}

#[derive(Debug, Clone, Copy, Serialize, Deserialize, PartialEq)]
pub enum Op {
    Submit { body: Body, prio: i8 },
    /// `threads` submitter threads behind a barrier, `per` tasks each, bodies cycle through
    /// a fixed cheap mix selected by `mix`, priorities from `prio_mix`
    Burst { threads: u8, per: u16, mix: u8, prio_mix: u8 },
    Join { task: u16, timeout_ms: u16 },
    /// like Join, but the waiter is held between its first look at the results and its
    /// registration until the task body has finished (+ 20 ms)
    JoinLate { task: u16, timeout_ms: u16 },
    /// `park_ms` > 0 holds the canceller between the running-coroutine lookup and the
    /// signal for that long (only has an effect when the target is running at that moment)
    Cancel { task: u16, park_ms: u8 },
    Release { task: u16 },
    Sleep(u8),
    /// the driver waits (up to 500 ms) until the task has started
    AwaitStart { task: u16 },
}

#[derive(Debug, Clone, Serialize, Deserialize)]
pub struct Case {
    pub loops: u8,
    /// 0 => 1, 1 => 2, 2 => 8, 3 => default (65536)
    pub max_size: u8,
    pub ops: Vec<Op>,
}

pub fn max_size_of(c: &Case) -> usize {
    [1usize, 2, 8, 65536][usize::from(c.max_size % 4)]
}

pub fn prio_of(p: i8) -> Option<i64> {
    match p {
        0 => None,
        1 => Some(0),
        2 => Some(i64::MIN),
        3 => Some(i64::MAX),
        4 => Some(-1),
        5 => Some(1),
        n => Some(i64::from(n) * 1_000_003),
    }
}

pub struct TaskRec {
    pub k: usize,
    pub body: Body,
    pub exec: AtomicU64,
    pub started: AtomicU64,
    pub ended: AtomicU64,
    pub released: AtomicBool,
    pub thread: Mutex<String>,
    pub submitted: AtomicU64,
    pub id: AtomicU64,
    pub prio: i8,
}

static TASKS: Mutex<Vec<Arc<TaskRec>>> = Mutex::new(Vec::new());
/// task id -> rec, for waiters to be held at the hook point
static HOLD_WAITER: Mutex<Option<HashMap<u64, Arc<TaskRec>>>> = Mutex::new(None);
/// task id -> park ms, for cancellers
static HOLD_CANCEL: Mutex<Option<HashMap<u64, (u64, Arc<TaskRec>)>>> = Mutex::new(None);
static CANCEL_PARKED: AtomicU64 = AtomicU64::new(0);
/// the handles of all submitted tasks (for joins made from inside a task) and their records
static HANDLES: Mutex<Option<Arc<Handles>>> = Mutex::new(None);
static IN_TASK_JOINS: Mutex<Vec<Value>> = Mutex::new(Vec::new());
static WAITER_HELD: AtomicU64 = AtomicU64::new(0);

fn handler(name: &'static str, a: u64, _b: u64) {
    match name {
        "wait_task_result:before_register" => {
            let rec = HOLD_WAITER.lock().unwrap().as_mut().and_then(|m| m.remove(&a));
            if let Some(rec) = rec {
                let t = Instant::now();
                while rec.ended.load(Ordering::SeqCst) == 0 && t.elapsed() < Duration::from_millis(1500) {
                    std::thread::sleep(Duration::from_micros(200));
                }
                if rec.ended.load(Ordering::SeqCst) != 0 {
                    // the loop thread stores the result within microseconds of the body's end
                    std::thread::sleep(Duration::from_millis(20));
                    WAITER_HELD.fetch_add(1, Ordering::SeqCst);
                }
            }
        }
        "try_cancel_task:before_signal" => {
            let held = HOLD_CANCEL.lock().unwrap().as_mut().and_then(|m| m.remove(&a));
            if let Some((ms, rec)) = held {
                if ms > 0 {
                    CANCEL_PARKED.fetch_add(1, Ordering::SeqCst);
                    // the target is running right now (that is why the signal path was taken):
                    // let a gate target finish, so that it leaves the CPU while the canceller is held
                    rec.released.store(true, Ordering::SeqCst);
                    std::thread::sleep(Duration::from_millis(ms));
                }
            }
        }
        _ => {}
    }
}

pub fn expected_value(k: usize) -> usize {
    1000 + k
}
pub fn panic_text(k: usize) -> String {
    format!("generated-panic-of-task-{k}")
}

fn run_body(rec: &Arc<TaskRec>) -> Option<usize> {
    rec.started.store(now(), Ordering::SeqCst);
    *rec.thread.lock().unwrap() = std::thread::current().name().unwrap_or("?").to_string();
    rec.exec.fetch_add(1, Ordering::SeqCst);
    let k = rec.k;
    let finish = |rec: &Arc<TaskRec>| rec.ended.store(now(), Ordering::SeqCst);
    match rec.body {
        Body::Return => {}
        Body::ReturnNone => {
            finish(rec);
            return None;
        }
        Body::PanicStatic => {
            finish(rec);
            let m: &'static str = Box::leak(panic_text(k).into_boxed_str());
            std::panic::panic_any(m);
        }
        Body::PanicString => {
            finish(rec);
            panic!("{}", panic_text(k));
        }
        Body::Delay(ms) => {
            if let Some(s) = SchedulableSuspender::current() {
                s.delay(Duration::from_millis(u64::from(ms)));
            }
        }
        Body::Spin(ms) => {
            let t = Instant::now();
            let mut x = 0u64;
            while t.elapsed() < Duration::from_millis(u64::from(ms)) {
                x = x.wrapping_mul(31).wrapping_add(7);
                std::hint::black_box(x);
            }
        }
        Body::Usleep(ms) => {
            let _ = hooked::usleep(None, u32::from(ms) * 1000);
        }
        Body::GateSuspended => {
            let t = Instant::now();
            while !rec.released.load(Ordering::SeqCst) && t.elapsed() < Duration::from_secs(8) {
                if let Some(s) = SchedulableSuspender::current() {
                    s.delay(Duration::from_millis(1));
                } else {
                    break;
                }
            }
        }
        Body::GateSpinning => {
            let t = Instant::now();
            while !rec.released.load(Ordering::SeqCst) && t.elapsed() < Duration::from_millis(150) {
                std::hint::spin_loop();
            }
        }
        Body::GateSpinThenDelay(ms) => {
            let t = Instant::now();
            while !rec.released.load(Ordering::SeqCst) && t.elapsed() < Duration::from_millis(150) {
                std::hint::spin_loop();
            }
            if let Some(s) = SchedulableSuspender::current() {
                s.delay(Duration::from_millis(u64::from(ms)));
            }
        }
        Body::JoinEarlier { back, timeout_ms } => {
            if k > 0 {
                let target = k - 1 - usize::from(back) % k;
                let h = HANDLES.lock().unwrap().as_ref().and_then(|hs| hs.lock().unwrap().get(target).cloned().flatten());
                if let Some(h) = h {
                    let called = now();
                    let r = h.timeout_join(Duration::from_millis(u64::from(timeout_ms)));
                    let returned = now();
                    let outcome = match r {
                        Ok(Ok(Some(v))) => json!({"kind":"value","v":v}),
                        Ok(Ok(None)) => json!({"kind":"none"}),
                        Ok(Err(m)) => json!({"kind":"error","m":m}),
                        Err(e) if e.kind() == std::io::ErrorKind::TimedOut => json!({"kind":"timeout"}),
                        Err(e) => json!({"kind":"io","m":e.to_string()}),
                    };
                    IN_TASK_JOINS.lock().unwrap().push(json!({"task":target,"op":format!("body-of-task-{k}"),"called":called.to_string(),"returned":returned.to_string(),"timeout_ms":timeout_ms,"late":false,"held":false,"in_task":true,"outcome":outcome}));
                }
            }
        }
    }
    finish(rec);
    Some(expected_value(k))
}

fn submit(body: Body, prio: i8, handles: &Handles) -> usize {
    let rec = {
        let mut t = TASKS.lock().unwrap();
        let k = t.len();
        let rec = Arc::new(TaskRec {
            k,
            body,
            exec: AtomicU64::new(0),
            started: AtomicU64::new(0),
            ended: AtomicU64::new(0),
            released: AtomicBool::new(false),
            thread: Mutex::new(String::new()),
            submitted: AtomicU64::new(0),
            id: AtomicU64::new(0),
            prio,
        });
        t.push(rec.clone());
        handles.lock().unwrap().push(None);
        rec
    };
    let r2 = rec.clone();
    let h = EventLoops::submit_task(Some(format!("rt-task-{}", rec.k)), move |_| run_body(&r2), None, prio_of(prio));
    rec.submitted.store(now(), Ordering::SeqCst);
    rec.id.store(h.id().unwrap_or(0), Ordering::SeqCst);
    handles.lock().unwrap()[rec.k] = Some(Arc::new(h));
    rec.k
}

struct SendHandle(Arc<JoinHandle>);
unsafe impl Send for SendHandle {}

/// A `JoinHandle` is a (&'static event loop, task id) pair; the runtime itself shares its
/// event loops between threads, the handle type just does not say so.
struct Handles(Mutex<Vec<Option<Arc<JoinHandle>>>>);
unsafe impl Send for Handles {}
unsafe impl Sync for Handles {}
impl Handles {
    fn lock(&self) -> std::sync::LockResult<std::sync::MutexGuard<'_, Vec<Option<Arc<JoinHandle>>>>> {
        self.0.lock()
    }
}

pub fn child_main() -> i32 {
    let case: Case = serde_json::from_value(child::read_stdin_json()).expect("case");
    // the generated task panics stay quiet; anything else is worth seeing in the child's stderr
    std::panic::set_hook(Box::new(|info| {
        let msg = info.payload().downcast_ref::<&'static str>().map(|s| (*s).to_string()).or_else(|| info.payload().downcast_ref::<String>().cloned()).unwrap_or_default();
        if !msg.contains("generated-panic-of-task") {
            eprintln!("panic at {:?}: {msg}", info.location().map(|l| format!("{}:{}", l.file(), l.line())));
        }
    }));
    let mut cfg = Config::single();
    cfg.set_hook(false);
    cfg.set_event_loop_size(usize::from(case.loops.clamp(1, 4)));
    cfg.set_max_size(max_size_of(&case));
    EventLoops::init(&cfg);
    *HOLD_WAITER.lock().unwrap() = Some(HashMap::new());
    *HOLD_CANCEL.lock().unwrap() = Some(HashMap::new());
    open_coroutine_core::verif::set_handler(Some(handler));
    let handles: Arc<Handles> = Arc::new(Handles(Mutex::new(Vec::new())));
    *HANDLES.lock().unwrap() = Some(handles.clone());
    let joins: Arc<Mutex<Vec<Value>>> = Arc::new(Mutex::new(Vec::new()));
    let mut join_threads = vec![];
    let mut cancels: Vec<Value> = vec![];
    let mut cancel_targets: std::collections::HashSet<usize> = std::collections::HashSet::new();
    let pick_task = |ix: u16| -> Option<Arc<TaskRec>> {
        let t = TASKS.lock().unwrap();
        if t.is_empty() {
            None
        } else {
            Some(t[vkit::pick(ix, t.len())].clone())
        }
    };
    for (opk, op) in case.ops.iter().enumerate() {
        child::emit(json!({"ev":"start","k":opk}));
        match *op {
            Op::Submit { body, prio } => {
                let _ = submit(body, prio, &handles);
            }
            Op::Burst { threads, per, mix, prio_mix } => {
                let n = usize::from(threads.clamp(1, 8));
                let barrier = Arc::new(Barrier::new(n));
                let mut ts = vec![];
                for t in 0..n {
                    let (barrier, handles) = (barrier.clone(), handles.clone());
                    ts.push(std::thread::spawn(move || {
                        barrier.wait();
                        for i in 0..usize::from(per) {
                            let body = match (usize::from(mix) + i + t) % 8 {
                                0 | 1 | 2 | 3 => Body::Return,
                                4 => Body::Delay(((i % 3) as u8) + 1),
                                5 => Body::ReturnNone,
                                6 => {
                                    if mix % 2 == 0 {
                                        Body::Usleep(1)
                                    } else {
                                        Body::Return
                                    }
                                }
                                _ => Body::Spin(0),
                            };
                            let prio = match prio_mix % 4 {
                                0 => 0,
                                1 => ((i + t) % 6) as i8,
                                2 => [2i8, 3, 2, 3, 1][(i + t) % 5],
                                _ => ((i * 7 + t) % 11) as i8,
                            };
                            let _ = submit(body, prio, &handles);
                        }
                    }));
                }
                for t in ts {
                    let _ = t.join();
                }
            }
            Op::Join { task, timeout_ms } | Op::JoinLate { task, timeout_ms } => {
                if let Some(rec) = pick_task(task) {
                    let late = matches!(*op, Op::JoinLate { .. });
                    let h = handles.lock().unwrap()[rec.k].clone();
                    if let Some(h) = h {
                        if late {
                            if let Some(m) = HOLD_WAITER.lock().unwrap().as_mut() {
                                m.insert(rec.id.load(Ordering::SeqCst), rec.clone());
                            }
                        }
                        let joins = joins.clone();
                        let sh = SendHandle(h);
                        let to = u64::from(timeout_ms);
                        join_threads.push(std::thread::spawn(move || {
                            let sh = sh;
                            let held0 = WAITER_HELD.load(Ordering::SeqCst);
                            let called = now();
                            let r = sh.0.timeout_join(Duration::from_millis(to));
                            let returned = now();
                            let held = late && WAITER_HELD.load(Ordering::SeqCst) > held0;
                            let outcome = match r {
                                Ok(Ok(Some(v))) => json!({"kind":"value","v":v}),
                                Ok(Ok(None)) => json!({"kind":"none"}),
                                Ok(Err(m)) => json!({"kind":"error","m":m}),
                                Err(e) if e.kind() == std::io::ErrorKind::TimedOut => json!({"kind":"timeout"}),
                                Err(e) => json!({"kind":"io","m":e.to_string()}),
                            };
                            joins.lock().unwrap().push(json!({"task":rec.k,"op":opk,"called":called.to_string(),"returned":returned.to_string(),"timeout_ms":to,"late":late,"held":held,"outcome":outcome}));
                        }));
                    }
                }
            }
            Op::Cancel { task, park_ms } => {
                if let Some(rec) = pick_task(task) {
                    let id = rec.id.load(Ordering::SeqCst);
                    if id != 0 {
                        // how many gate tasks hold a worker right now (started, not ended)
                        let (busy_gates, started_before) = {
                            let t = TASKS.lock().unwrap();
                            (
                                // a gate that was itself the target of a cancel may have been ended by
                                // it without ever reaching its end: it no longer holds a worker for sure
                                t.iter().filter(|r| matches!(r.body, Body::GateSuspended | Body::GateSpinning | Body::GateSpinThenDelay(_)) && r.started.load(Ordering::SeqCst) != 0 && r.ended.load(Ordering::SeqCst) == 0 && !cancel_targets.contains(&r.k)).count(),
                                rec.started.load(Ordering::SeqCst) != 0,
                            )
                        };
                        if park_ms > 0 {
                            if let Some(m) = HOLD_CANCEL.lock().unwrap().as_mut() {
                                m.insert(id, (u64::from(park_ms), rec.clone()));
                            }
                        }
                        cancel_targets.insert(rec.k);
                        let parked0 = CANCEL_PARKED.load(Ordering::SeqCst);
                        let at = now();
                        EventLoops::try_cancel_task(id);
                        let done = now();
                        if let Some(m) = HOLD_CANCEL.lock().unwrap().as_mut() {
                            m.remove(&id);
                        }
                        child::emit(json!({"ev":"cancel","task":rec.k,"started_after":rec.started.load(Ordering::SeqCst) != 0,"ended_before":rec.ended.load(Ordering::SeqCst) != 0 && rec.ended.load(Ordering::SeqCst) < at,"parked":CANCEL_PARKED.load(Ordering::SeqCst) > parked0}));
                        cancels.push(json!({"task":rec.k,"op":opk,"at":at.to_string(),"done":done.to_string(),"busy_gates":busy_gates,"started_before":started_before,"started_after":rec.started.load(Ordering::SeqCst) != 0,
                            "ended_before":rec.ended.load(Ordering::SeqCst) != 0 && rec.ended.load(Ordering::SeqCst) < at,
                            "parked":CANCEL_PARKED.load(Ordering::SeqCst) > parked0}));
                    }
                }
            }
            Op::Release { task } => {
                if let Some(rec) = pick_task(task) {
                    rec.released.store(true, Ordering::SeqCst);
                }
            }
            Op::Sleep(ms) => std::thread::sleep(Duration::from_millis(u64::from(ms))),
            Op::AwaitStart { task } => {
                if let Some(rec) = pick_task(task) {
                    let t = Instant::now();
                    while rec.started.load(Ordering::SeqCst) == 0 && t.elapsed() < Duration::from_millis(500) {
                        std::thread::sleep(Duration::from_micros(200));
                    }
                }
            }
        }
        child::emit(json!({"ev":"done","k":opk}));
    }
    // epilogue: open every gate, let the joins finish, wait for quiescence, run sentinels
    child::emit(json!({"ev":"start","k":"epilogue"}));
    let all: Vec<Arc<TaskRec>> = TASKS.lock().unwrap().clone();
    for r in &all {
        r.released.store(true, Ordering::SeqCst);
    }
    for t in join_threads {
        let _ = t.join();
    }
    let progress = |all: &Vec<Arc<TaskRec>>| -> u64 { all.iter().map(|r| r.exec.load(Ordering::SeqCst) + u64::from(r.ended.load(Ordering::SeqCst) != 0)).sum() };
    let cancelled: std::collections::HashSet<usize> = cancels.iter().filter_map(|c| c["task"].as_u64().map(|x| x as usize)).collect();
    let mut last = (progress(&all), Instant::now());
    let t0 = Instant::now();
    loop {
        let pending = all.iter().any(|r| !cancelled.contains(&r.k) && r.ended.load(Ordering::SeqCst) == 0);
        if !pending {
            break;
        }
        let p = progress(&all);
        if p != last.0 {
            last = (p, Instant::now());
        }
        if last.1.elapsed() > Duration::from_secs(3) || t0.elapsed() > Duration::from_secs(40) {
            break;
        }
        std::thread::sleep(Duration::from_millis(2));
    }
    // was the host responsive while we waited? (a starved host must not look like lost work)
    let host_calm = vkit::timing::host_calm();
    // sentinels: twice as many as loops, round-robin reaches every loop
    let sent: Arc<AtomicU64> = Arc::new(AtomicU64::new(0));
    let nsent = u64::from(case.loops.clamp(1, 4)) * 2;
    let mut keep = vec![];
    for i in 0..nsent {
        let s = sent.clone();
        keep.push(EventLoops::submit_task(
            Some(format!("rt-sentinel-{i}")),
            move |_| {
                s.fetch_add(1, Ordering::SeqCst);
                None
            },
            None,
            None,
        ));
    }
    let t1 = Instant::now();
    while sent.load(Ordering::SeqCst) < nsent && t1.elapsed() < Duration::from_secs(3) {
        std::thread::sleep(Duration::from_millis(1));
    }
    // duplicates may still trickle in
    std::thread::sleep(Duration::from_millis(10));
    open_coroutine_core::verif::set_handler(None);
    let tasks: Vec<Value> = all
        .iter()
        .map(|r| {
            json!({"k":r.k,"body":r.body,"prio":r.prio,"exec":r.exec.load(Ordering::SeqCst),"submitted":r.submitted.load(Ordering::SeqCst).to_string(),
                "started":r.started.load(Ordering::SeqCst).to_string(),"ended":r.ended.load(Ordering::SeqCst).to_string(),"thread":*r.thread.lock().unwrap()})
        })
        .collect();
    if std::env::var_os("RT_PAUSE_ON_STUCK").is_some() && (sent.load(Ordering::SeqCst) < nsent || all.iter().any(|r| r.started.load(Ordering::SeqCst) != 0 && r.ended.load(Ordering::SeqCst) == 0 && !matches!(r.body, Body::PanicStatic | Body::PanicString) && !cancelled.contains(&r.k))) {
        eprintln!("RT: stuck task, pausing for inspection (pid {})", std::process::id());
        std::thread::sleep(Duration::from_secs(600));
    }
    child::emit(json!({"ev":"done","k":"epilogue"}));
    joins.lock().unwrap().append(&mut IN_TASK_JOINS.lock().unwrap());
    child::emit(json!({"ev":"result","tasks":tasks,"joins":*joins.lock().unwrap(),"cancels":cancels,"sentinels_ran":sent.load(Ordering::SeqCst),"sentinels":nsent,"host_calm":host_calm,
        "waiter_held":WAITER_HELD.load(Ordering::SeqCst),"cancel_parked":CANCEL_PARKED.load(Ordering::SeqCst)}));
    let _ = keep;
    unsafe { libc::_exit(0) }
}

// ----------------------------------------------------------------------------------------
// parent side: decoded log
// ----------------------------------------------------------------------------------------

#[derive(Debug, Clone)]
pub struct TaskLog {
    pub k: usize,
    pub body: Body,
    pub prio: i8,
    pub exec: u64,
    pub submitted: u64,
    pub started: u64,
    pub ended: u64,
    pub thread: String,
}

#[derive(Debug, Clone)]
pub struct JoinLog {
    pub task: usize,
    pub called: u64,
    pub returned: u64,
    pub timeout_ms: u64,
    pub late: bool,
    pub held: bool,
    /// the join was made from inside a task (the waiter is a pool coroutine)
    pub in_task: bool,
    /// value / none / error / timeout / io
    pub kind: String,
    pub v: Option<u64>,
    pub m: String,
}

#[derive(Debug, Clone)]
pub struct CancelLog {
    pub task: usize,
    pub at: u64,
    pub done: u64,
    pub busy_gates: usize,
    pub started_before: bool,
    /// had the target started by the time the cancel call returned
    pub started_after: bool,
    pub ended_before: bool,
    pub parked: bool,
}

#[derive(Debug, Clone)]
pub struct Log {
    pub tasks: Vec<TaskLog>,
    pub joins: Vec<JoinLog>,
    pub cancels: Vec<CancelLog>,
    pub sentinels_ok: bool,
    pub host_calm: bool,
    pub waiter_held: u64,
    pub cancel_parked: u64,
}

fn u(v: &Value) -> u64 {
    v.as_str().and_then(|s| s.parse().ok()).or_else(|| v.as_u64()).unwrap_or(0)
}

pub enum Run {
    Log(Log),
    /// the child died / hung: (signature suffix, message, a cancel may have met a started task)
    Broken(String, String, bool),
    Excluded(&'static str),
}

pub fn run_case(c: &Case, timeout: Duration) -> Run {
    let js = serde_json::to_string(c).unwrap();
    let r: ChildResult = child::run_child(&ChildSpec { args: vec!["RTchild".into()], stdin: &js, timeout, env: vec![] });
    let met_started = r.find("cancel").iter().any(|x| (x["started_after"].as_bool().unwrap_or(true) && !x["ended_before"].as_bool().unwrap_or(false)) || x["parked"].as_bool().unwrap_or(false));
    match &r.end {
        End::Exit(0) => {}
        End::Signal(sig) => {
            let op = r.open_op().map(|v| v["k"].clone());
            return Run::Broken(
                format!("process-killed-by-signal-{sig}"),
                format!("the runtime process died (signal {sig}) while executing op {op:?} {:?}; {}", op.as_ref().and_then(Value::as_u64).and_then(|k| c.ops.get(k as usize)), r.stderr_tail.lines().rev().take(3).collect::<Vec<_>>().join(" | ")),
                met_started,
            );
        }
        End::Deadline { cpu_busy } => {
            let op = r.open_op().map(|v| v["k"].clone());
            return Run::Broken(
                "driver-call-did-not-return".into(),
                format!("the child was still inside op {op:?} {:?} at the deadline ({}), i.e. a runtime call of the driver thread never returned", op.as_ref().and_then(Value::as_u64).and_then(|k| c.ops.get(k as usize)), if *cpu_busy { "burning CPU" } else { "blocked" }),
                met_started,
            );
        }
        End::Exit(_) => return Run::Excluded("child-exited-nonzero"),
    }
    let Some(res) = r.result() else { return Run::Excluded("child-gave-no-result") };
    let tasks = res["tasks"]
        .as_array()
        .map(|a| {
            a.iter()
                .map(|t| TaskLog {
                    k: t["k"].as_u64().unwrap_or(0) as usize,
                    body: serde_json::from_value(t["body"].clone()).unwrap_or(Body::Return),
                    prio: t["prio"].as_i64().unwrap_or(0) as i8,
                    exec: t["exec"].as_u64().unwrap_or(0),
                    submitted: u(&t["submitted"]),
                    started: u(&t["started"]),
                    ended: u(&t["ended"]),
                    thread: t["thread"].as_str().unwrap_or("").to_string(),
                })
                .collect()
        })
        .unwrap_or_default();
    let joins = res["joins"]
        .as_array()
        .map(|a| {
            a.iter()
                .map(|j| JoinLog {
                    task: j["task"].as_u64().unwrap_or(0) as usize,
                    called: u(&j["called"]),
                    returned: u(&j["returned"]),
                    timeout_ms: j["timeout_ms"].as_u64().unwrap_or(0),
                    late: j["late"].as_bool().unwrap_or(false),
                    in_task: j["in_task"].as_bool().unwrap_or(false),
                    held: j["held"].as_bool().unwrap_or(false),
                    kind: j["outcome"]["kind"].as_str().unwrap_or("").to_string(),
                    v: j["outcome"]["v"].as_u64(),
                    m: j["outcome"]["m"].as_str().unwrap_or("").to_string(),
                })
                .collect()
        })
        .unwrap_or_default();
    let cancels = res["cancels"]
        .as_array()
        .map(|a| {
            a.iter()
                .map(|x| CancelLog {
                    task: x["task"].as_u64().unwrap_or(0) as usize,
                    at: u(&x["at"]),
                    done: u(&x["done"]),
                    busy_gates: x["busy_gates"].as_u64().unwrap_or(0) as usize,
                    started_before: x["started_before"].as_bool().unwrap_or(false),
                    started_after: x["started_after"].as_bool().unwrap_or(true),
                    ended_before: x["ended_before"].as_bool().unwrap_or(false),
                    parked: x["parked"].as_bool().unwrap_or(false),
                })
                .collect()
        })
        .unwrap_or_default();
    Run::Log(Log {
        tasks,
        joins,
        cancels,
        sentinels_ok: res["sentinels_ran"].as_u64() == res["sentinels"].as_u64(),
        host_calm: res["host_calm"].as_bool().unwrap_or(true),
        waiter_held: res["waiter_held"].as_u64().unwrap_or(0),
        cancel_parked: res["cancel_parked"].as_u64().unwrap_or(0),
    })
}

/// distinct event-loop threads that executed task bodies
pub fn threads_used(l: &Log) -> usize {
    l.tasks.iter().filter(|t| t.exec > 0).map(|t| t.thread.as_str()).collect::<std::collections::HashSet<_>>().len()
}

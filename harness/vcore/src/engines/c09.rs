//! C09 — delay and cancel requests affect only the coroutine (and the yield) that made them.
//!
//! Case: 2..5 coroutines resumed on one thread in a generated order; each is a list of
//! yields: plain, until(ts) with a unique ts, cancel, and the same three made while the
//! coroutine is in a system-call state (what every hooked wait does).
//! Oracle: every Running-state yield reports exactly what *that* yield requested:
//! `Suspend((), 0)` for a plain one, `Suspend((), ts)` with its own ts, `Cancelled` iff it
//! asked for it. A syscall-state yield reports the syscall state.

use open_coroutine_core::common::constants::{CoroutineState, SyscallName, SyscallState};
use open_coroutine_core::coroutine::suspender::Suspender;
use open_coroutine_core::coroutine::Coroutine;
use proptest::prelude::*;
use serde::{Deserialize, Serialize};
use vkit::{pick, Args, Evidence, Outcome, RunCfg};

type St = CoroutineState<(), Option<usize>>;
type Co<'a> = Coroutine<'a, (), (), Option<usize>>;

#[derive(Debug, Clone, Copy, Serialize, Deserialize, PartialEq)]
pub enum Y {
    Plain,
    Until,
    Cancel,
    SysPlain,
    SysUntil,
    SysCancel,
}

#[derive(Debug, Clone, Serialize, Deserialize)]
pub struct Case {
    pub cos: Vec<Vec<Y>>,
    pub order: Vec<u16>,
}

pub fn strategy() -> impl Strategy<Value = Case> {
    (
        proptest::collection::vec(
            proptest::collection::vec(
                prop_oneof![4 => Just(Y::Plain), 3 => Just(Y::Until), 1 => Just(Y::Cancel), 2 => Just(Y::SysPlain), 3 => Just(Y::SysUntil), 1 => Just(Y::SysCancel)],
                0..7,
            ),
            2..=5,
        ),
        proptest::collection::vec(any::<u16>(), 0..40),
    )
        .prop_map(|(cos, order)| Case { cos, order })
}

pub fn exec(c: &Case) -> Outcome {
    std::thread::scope(|sc| {
        std::thread::Builder::new()
            .stack_size(1 << 20)
            .spawn_scoped(sc, || exec_inner(c))
            .expect("spawn")
            .join()
            .unwrap_or_else(|_| Outcome::fail("C09/harness-thread-panicked", "panic escaped the case thread"))
    })
}

fn ts_for(ci: usize, yi: usize) -> u64 {
    // unique, in the past (so the coroutine is immediately resumable again)
    10_000 + (ci as u64) * 100 + yi as u64
}

fn exec_inner(c: &Case) -> Outcome {
    let n = c.cos.len();
    let mut cos: Vec<Co<'_>> = vec![];
    for (ci, ys) in c.cos.iter().enumerate() {
        let ys = ys.clone();
        cos.push(
            Coroutine::new(
                Some(format!("c09-{ci}")),
                move |s: &Suspender<(), ()>, ()| -> Option<usize> {
                    let me = Co::current().expect("current");
                    for (yi, y) in ys.iter().enumerate() {
                        match y {
                            Y::Plain => s.suspend(),
                            Y::Until => s.until(ts_for(ci, yi)),
                            Y::Cancel => s.cancel(),
                            Y::SysPlain | Y::SysUntil | Y::SysCancel => {
                                me.syscall((), SyscallName::read, SyscallState::Executing).expect("enter syscall state");
                                match y {
                                    Y::SysPlain => s.suspend(),
                                    Y::SysUntil => s.until(ts_for(ci, yi)),
                                    _ => s.cancel(),
                                }
                                // resumed: the resumer moved Syscall(Executing) -> Running
                            }
                        }
                    }
                    Some(ci)
                },
                Some(64 * 1024),
                None,
            )
            .expect("create"),
        );
    }
    let mut pos = vec![0usize; n]; // next yield index each coroutine will perform
    let mut dead = vec![false; n];
    let mut stale_request_pending = false; // a syscall-state yield carried a request
    let mut nt = false;
    let mut o = Outcome::pass();
    let mut oi = 0;
    let mut sys_requests = 0;
    loop {
        let alive: Vec<usize> = (0..n).filter(|i| !dead[*i]).collect();
        if alive.is_empty() {
            break;
        }
        let ix = c.order.get(oi).copied().unwrap_or(0);
        oi += 1;
        let ci = alive[pick(ix, alive.len())];
        let r = std::panic::catch_unwind(std::panic::AssertUnwindSafe(|| cos[ci].resume()));
        let r = match r {
            Ok(Ok(s)) => s,
            other => {
                o.set_fail("C09/resume-failed", format!("coroutine {ci}: {other:?}"));
                break;
            }
        };
        let yi = pos[ci];
        let want: Option<St> = match c.cos[ci].get(yi) {
            None => Some(CoroutineState::Complete(Some(ci))),
            Some(Y::Plain) => Some(CoroutineState::Suspend((), 0)),
            Some(Y::Until) => Some(CoroutineState::Suspend((), ts_for(ci, yi))),
            Some(Y::Cancel) => Some(CoroutineState::Cancelled),
            // a cancel requested in a syscall state is honoured like any other cancel request
            // (the coroutine must never be resumed again: Suspender::cancel does not return)
            Some(Y::SysCancel) => Some(CoroutineState::Cancelled),
            Some(Y::SysPlain | Y::SysUntil) => None,
        };
        match want {
            Some(w) => {
                if matches!(c.cos[ci].get(yi), Some(Y::Plain | Y::Until | Y::Cancel)) && stale_request_pending {
                    nt = true;
                }
                if r != w {
                    let what = match (c.cos[ci].get(yi), r) {
                        (Some(Y::Plain | Y::Until), CoroutineState::Cancelled) => "yield-cancelled-without-asking",
                        (Some(Y::Plain), CoroutineState::Suspend((), _)) => "plain-suspend-reports-foreign-wakeup-time",
                        (Some(Y::Until), CoroutineState::Suspend((), _)) => "delay-reports-foreign-wakeup-time",
                        (Some(Y::Cancel), _) => "cancel-request-not-honoured",
                        (Some(Y::SysCancel), _) => "cancel-request-in-syscall-state-not-honoured",
                        _ => "wrong-result",
                    };
                    o.set_fail(
                        format!("C09/{what}"),
                        format!("coroutine {ci} yield #{yi} ({:?}) requested {w:?} but the resume reported {r:?}", c.cos[ci].get(yi)),
                    );
                    break;
                }
                if matches!(r, CoroutineState::Complete(_) | CoroutineState::Cancelled) {
                    dead[ci] = true;
                }
                if matches!(c.cos[ci].get(yi), Some(Y::SysCancel)) {
                    stale_request_pending = true;
                    sys_requests += 1;
                }
            }
            None => {
                if !matches!(r, CoroutineState::Syscall((), SyscallName::read, SyscallState::Executing)) {
                    o.set_fail(
                        "C09/syscall-state-yield-reported-as-something-else",
                        format!("coroutine {ci} yield #{yi} ({:?}) in a syscall state, resume reported {r:?}", c.cos[ci].get(yi)),
                    );
                    break;
                }
                if matches!(c.cos[ci].get(yi), Some(Y::SysUntil | Y::SysCancel)) {
                    stale_request_pending = true;
                    sys_requests += 1;
                }
                if matches!(c.cos[ci].get(yi), Some(Y::SysCancel)) {
                    // suspended inside cancel(): resuming it again would hit unreachable!()
                    dead[ci] = true;
                }
            }
        }
        pos[ci] += 1;
    }
    drop(cos);
    o.nontrivial = nt;
    o.class_if(sys_requests > 0, "request-made-in-syscall-state").class_if(nt, "running-state-yield-after-syscall-state-request")
}

pub fn main(args: &Args) -> i32 {
    std::panic::set_hook(Box::new(|_| {}));
    if let Some(p) = &args.replay {
        let (_, _, case) = vkit::load_replay(p);
        return vkit::replay_verdict("C09", p, &exec(&serde_json::from_value(case).expect("case")));
    }
    let mut ev = Evidence::new("C09", args, "exploration");
    ev.assume("each case runs on a fresh thread, so requests left behind by an earlier case cannot leak into it");
    ev.assume("signal-driven cancellation is represented by calling Suspender::cancel() directly (what the SIGVTALRM handler does)");
    ev.add(vkit::run_regress("C09", |_s, case| exec(&serde_json::from_value(case).expect("case"))));
    if ev.has_violations() {
        return ev.finish();
    }
    ev.add(vkit::run_prop(
        &RunCfg {
            property: "C09",
            sub: "requests",
            rule: "2..5 coroutines x 0..6 yields over {plain, until(unique ts), cancel, and the same three in a syscall state}, generated resume order on one thread; non-trivial = a Running-state yield is judged after some syscall-state yield carried a request",
            seed: args.seed,
            cases: args.cases(6_000, 200_000),
            shards: 16,
            max_shrink_iters: 4000,
        },
        strategy,
        exec,
    ));
    ev.finish()
}

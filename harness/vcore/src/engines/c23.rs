//! C23 — stack growth runs the callback with room to spare and restores bookkeeping.
//!
//! Case (fresh child): context (coroutine | plain 256 KiB thread), red zone, segment size,
//! a recursion of `depth` levels with a frame of 1/4/8/16 KiB per level where every level
//! goes through `maybe_grow_with(red_zone, segment_size, ..)`, an optional panic at level
//! `panic_at` caught by a `catch_unwind` around level `catch_at <= panic_at`, and a second
//! identical recursion (without the panic) afterwards.
//! Oracle:
//!  * the process survives and every level returns the value a pure model computes;
//!  * at every callback entry `red_zone - 2 KiB` bytes below the stack pointer can be
//!    touched (a chain of small frames walks down that far); in a coroutine additionally
//!    `remaining_stack()` (plus the callback's own frame) `>= red_zone - 2 KiB` and the stack pointer lies in the last
//!    reported segment;
//!  * coroutine: `stack_infos()` after the outermost call, and after a caught panic at the
//!    catch site, equal the value sampled before;
//!  * thread: the second recursion makes, level by level, the same grow / don't-grow
//!    decisions as the first one did (for the levels the first one reached) and survives.

use open_coroutine_core::coroutine::suspender::Suspender;
use open_coroutine_core::coroutine::{Coroutine, StackInfo};
use proptest::prelude::*;
use serde::{Deserialize, Serialize};
use serde_json::json;
use std::cell::RefCell;
use std::hint::black_box;
use std::time::Duration;
use vkit::child::{self, ChildSpec, End};
use vkit::{Args, Evidence, Outcome, RunCfg};

type Co<'a> = Coroutine<'a, (), (), u64>;

#[derive(Debug, Clone, Serialize, Deserialize)]
pub struct Case {
    pub coroutine: bool,
    /// KiB
    pub red_zone_kib: u16,
    /// segment size = red zone + this many KiB (>= 16)
    pub extra_kib: u16,
    /// 0..3 => 1, 4, 8, 16 KiB per level
    pub frame: u8,
    pub depth: u8,
    /// level whose callback panics
    pub panic_at: Option<u8>,
    /// the call of this level is wrapped in catch_unwind (<= panic_at)
    pub catch_at: u8,
    /// coroutine stack size in KiB (coroutine context only)
    pub co_stack_kib: u16,
    /// the callback of this level descends a second time after its first descent has returned
    /// (zig-zag: back from inner segments to an outer one, then down again)
    #[serde(default)]
    pub again_at: Option<u8>,
}

pub fn strategy() -> impl Strategy<Value = Case> {
    (any::<bool>(), 8u16..=64, 16u16..=128, 0u8..4, 1u8..=80, proptest::option::weighted(0.6, 0u8..80), 0u8..80, prop_oneof![Just(64u16), Just(128), Just(256)], proptest::option::weighted(0.5, 0u8..80))
        .prop_map(|(coroutine, mut red_zone_kib, extra_kib, frame, depth, panic_at, catch_at, co_stack_kib, again_at)| {
            let again_at = again_at.map(|a| a % depth);
            let f_kib = [1u16, 4, 8, 16][frame as usize];
            // a level's own frame must fit inside the guaranteed room with space for the probe
            red_zone_kib = red_zone_kib.max(f_kib + 8);
            let panic_at = panic_at.map(|p| p % depth);
            if panic_at.is_some() {
                // raising and unwinding a panic needs stack of its own (message formatting,
                // the unwinder's contexts); the panicking level must find it inside its red zone
                red_zone_kib = red_zone_kib.max(f_kib + 24);
            }
            let catch_at = match panic_at {
                Some(p) => catch_at % (p + 1),
                None => 0,
            };
            Case { coroutine, red_zone_kib, extra_kib, frame, depth, panic_at, catch_at, co_stack_kib, again_at }
        })
}

const MARK: u64 = 0x7777_7777;

fn mix(below: u64, d: u32) -> u64 {
    below.wrapping_mul(0x100000001b3).wrapping_add(u64::from(d) + 1)
}

/// the value the outermost call returns according to the model: every level folds the value
/// of the level below; a caught panic replaces the value of level `catch_at` by MARK
pub fn model(c: &Case, with_panic: bool) -> u64 {
    let (mut v, start) = match (with_panic, c.panic_at) {
        (true, Some(_)) => (MARK, u32::from(c.catch_at)),
        _ => (1u64, u32::from(c.depth)),
    };
    for lvl in (0..start).rev() {
        v = mix(v, lvl);
    }
    v
}

#[derive(Default)]
struct Log {
    /// per level: did the callback run on another stack than its caller
    switched: Vec<bool>,
    /// the same by level number (first descent), for the comparison with a second descent
    first_by_level: std::collections::HashMap<u32, bool>,
    second_descents: u32,
    problems: Vec<String>,
    max_segments: usize,
    segments_at_panic: usize,
    segments_at_catch: usize,
}

thread_local! {
    static LOG: RefCell<Log> = RefCell::new(Log::default());
    /// > 0 while a second descent is in progress
    static SECOND: std::cell::Cell<u32> = const { std::cell::Cell::new(0) };
}

struct St {
    red: usize,
    seg: usize,
    depth: u32,
    panic_at: Option<u32>,
    catch_at: u32,
    coroutine: bool,
    again_at: Option<u32>,
}

#[inline(never)]
fn sp() -> usize {
    let x = 0u8;
    black_box(&x) as *const u8 as usize
}

/// walk `bytes` further down the stack in small frames, touching every one
#[inline(never)]
fn eat(bytes: usize) -> u8 {
    let mut b = [0u8; 512];
    let p = black_box(&mut b);
    p[0] = (bytes & 0xff) as u8;
    p[511] = 1;
    if bytes > 640 {
        p[0].wrapping_add(eat(bytes - 640))
    } else {
        p[0]
    }
}

fn infos() -> Option<Vec<StackInfo>> {
    Co::current().map(|c| c.stack_infos().into_iter().collect())
}

fn rec<const F: usize>(st: &St, d: u32) -> u64 {
    let caller_sp = sp();
    Co::maybe_grow_with(st.red, st.seg, || {
        let cb_sp = sp();
        let switched = !(cb_sp <= caller_sp && caller_sp - cb_sp < 4096);
        let second = SECOND.with(std::cell::Cell::get) > 0;
        LOG.with(|l| {
            let mut l = l.borrow_mut();
            if second {
                // same frame above, same stack pointer at the call: the decision must be the same
                if let Some(first) = l.first_by_level.get(&d).copied() {
                    if first != switched {
                        l.problems.push(format!(
                            "level {d}: on the second descent from the same frame the call {}, on the first descent it {}",
                            if switched { "switched to a fresh segment" } else { "ran in place" },
                            if first { "switched to a fresh segment" } else { "ran in place" }
                        ));
                    }
                }
            } else {
                l.switched.push(switched);
                let _ = l.first_by_level.insert(d, switched);
            }
        });
        if st.coroutine {
            if let Some(co) = Co::current() {
                let rem = unsafe { co.remaining_stack() };
                let si = co.stack_infos();
                LOG.with(|l| {
                    let mut l = l.borrow_mut();
                    l.max_segments = l.max_segments.max(si.len());
                    // measured below this callback's own frame (the F-byte array and locals)
                    if rem + F + 2048 < st.red {
                        l.problems.push(format!("level {d}: callback (own frame {F} bytes) entered with remaining_stack() = {rem} < red zone {}", st.red));
                    }
                    if let Some(last) = si.back() {
                        if !(last.stack_bottom <= cb_sp && cb_sp < last.stack_top) {
                            l.problems.push(format!("level {d}: stack pointer {cb_sp:#x} is outside the last reported segment {last:?}"));
                        }
                    }
                });
            }
        }
        let mut frame = [0u8; F];
        let fr = black_box(&mut frame);
        fr[0] = d as u8;
        fr[F - 1] = 1;
        // the callback must be able to use red_zone - 2 KiB below its entry
        let budget = st.red.saturating_sub(F + 2048 + 1024);
        let _ = black_box(eat(budget));
        if st.panic_at == Some(d) {
            LOG.with(|l| l.borrow_mut().segments_at_panic = infos().map_or(0, |i| i.len()));
            panic!("c23 generated panic at level {d}");
        }
        let below = if d + 1 < st.depth {
            if st.panic_at.is_some() && st.catch_at == d + 1 {
                let before = infos();
                let r = std::panic::catch_unwind(std::panic::AssertUnwindSafe(|| rec::<F>(st, d + 1)));
                let after = infos();
                LOG.with(|l| {
                    let mut l = l.borrow_mut();
                    l.segments_at_catch = before.as_ref().map_or(0, Vec::len);
                    if before != after {
                        l.problems.push(format!("stack segments differ across a caught panic: before {before:?} after {after:?}"));
                    }
                });
                r.unwrap_or(MARK)
            } else {
                rec::<F>(st, d + 1)
            }
        } else {
            1
        };
        if st.again_at == Some(d) && d + 1 < st.depth && !second {
            // zig-zag: the first descent has returned (its segments are released), go down again
            SECOND.with(|x| x.set(1));
            LOG.with(|l| l.borrow_mut().second_descents += 1);
            let r2 = std::panic::catch_unwind(std::panic::AssertUnwindSafe(|| rec::<F>(st, d + 1)));
            SECOND.with(|x| x.set(0));
            let v2 = match r2 {
                Ok(v2) => v2,
                // this level is the catch site of the generated panic: caught here as before
                Err(_) if st.panic_at.is_some() && st.catch_at == d + 1 => MARK,
                Err(e) => std::panic::resume_unwind(e),
            };
            if v2 != below {
                LOG.with(|l| l.borrow_mut().problems.push(format!("level {d}: the second descent returned {v2}, the first one {below}")));
            }
        }
        mix(below, d).wrapping_add(u64::from(fr[0]).wrapping_sub(u64::from(d as u8)))
    })
    .expect("allocate stack failed")
}

fn top<const F: usize>(st: &St) -> u64 {
    if st.panic_at.is_some() && st.catch_at == 0 {
        let before = infos();
        let r = std::panic::catch_unwind(std::panic::AssertUnwindSafe(|| rec::<F>(st, 0)));
        let after = infos();
        LOG.with(|l| {
            let mut l = l.borrow_mut();
            l.segments_at_catch = before.as_ref().map_or(0, Vec::len);
            if before != after {
                l.problems.push(format!("stack segments differ across a caught panic: before {before:?} after {after:?}"));
            }
        });
        r.unwrap_or(MARK)
    } else {
        rec::<F>(st, 0)
    }
}

fn run_phase(c: &Case, with_panic: bool) -> u64 {
    let st = St {
        red: usize::from(c.red_zone_kib) * 1024,
        seg: (usize::from(c.red_zone_kib) + usize::from(c.extra_kib)) * 1024,
        depth: u32::from(c.depth),
        panic_at: if with_panic { c.panic_at.map(u32::from) } else { None },
        catch_at: u32::from(c.catch_at),
        coroutine: c.coroutine,
        again_at: c.again_at.map(u32::from),
    };
    match c.frame % 4 {
        0 => top::<1024>(&st),
        1 => top::<4096>(&st),
        2 => top::<8192>(&st),
        _ => top::<16384>(&st),
    }
}

fn take_log() -> Log {
    LOG.with(|l| std::mem::take(&mut *l.borrow_mut()))
}

fn phases(c: &Case) {
    std::panic::set_hook(Box::new(|_| {}));
    let before = infos();
    child::emit(json!({"ev":"start","k":0}));
    let v0 = run_phase(c, true);
    let l0 = take_log();
    let mid = infos();
    child::emit(json!({"ev":"done","k":0,"value":v0.to_string(),"switched":l0.switched,"problems":l0.problems,"max_segments":l0.max_segments,"second_descents":l0.second_descents,
        "segments_at_panic":l0.segments_at_panic,"segments_at_catch":l0.segments_at_catch,"infos_equal": before == mid}));
    child::emit(json!({"ev":"start","k":1}));
    let v1 = run_phase(c, false);
    let l1 = take_log();
    let after = infos();
    child::emit(json!({"ev":"done","k":1,"value":v1.to_string(),"switched":l1.switched,"problems":l1.problems,"max_segments":l1.max_segments,"infos_equal": before == after}));
}

pub fn child_main() -> i32 {
    let case: Case = serde_json::from_value(child::read_stdin_json()).expect("case");
    if case.coroutine {
        let c2 = case.clone();
        let mut co: Co<'_> = Coroutine::new(
            Some("c23".into()),
            move |_: &Suspender<(), ()>, ()| {
                phases(&c2);
                7u64
            },
            Some(usize::from(case.co_stack_kib) * 1024),
            None,
        )
        .expect("create coroutine");
        let r = co.resume();
        child::emit(json!({"ev":"result","resume": format!("{r:?}")}));
    } else {
        let c2 = case.clone();
        let h = std::thread::Builder::new().stack_size(256 * 1024).spawn(move || phases(&c2)).expect("spawn");
        let ok = h.join().is_ok();
        child::emit(json!({"ev":"result","resume": if ok { "Ok(Complete(7))" } else { "thread panicked" }}));
    }
    0
}

pub fn exec(c: &Case) -> Outcome {
    let js = serde_json::to_string(c).unwrap();
    let r = child::run_child(&ChildSpec { args: vec!["C23child".into()], stdin: &js, timeout: Duration::from_secs(30), env: vec![] });
    let ctx = if c.coroutine { "coroutine" } else { "thread" };
    let mut o = Outcome::pass();
    let dones = r.find("done");
    let phase_name = |k: u64| if k == 0 { "first-recursion" } else { "recursion-after-caught-panic" };
    // NT: a panic unwound through >= 1 grown segment
    if let Some(d0) = dones.first() {
        let sw: Vec<bool> = d0["switched"].as_array().map(|a| a.iter().map(|x| x.as_bool().unwrap_or(false)).collect()).unwrap_or_default();
        if let Some(p) = c.panic_at {
            let (j, p) = (usize::from(c.catch_at), usize::from(p));
            // levels j..=p were unwound; a switch at any level in (j..=p] (or at j itself, whose
            // on_stack frame is also unwound) means a grown segment was unwound through
            let through = sw.iter().enumerate().any(|(lvl, s)| *s && lvl >= j && lvl <= p);
            o.nontrivial = through;
            o = o.class_if(through, "panic-unwound-through-a-grown-segment");
        }
        o = o.class_if(d0["second_descents"].as_u64().unwrap_or(0) > 0, "second-descent-from-a-frame").class_if(sw.iter().filter(|s| **s).count() >= 2, "2+segments-grown").class_if(c.coroutine, "coroutine").class_if(!c.coroutine, "plain-thread");
    }
    match &r.end {
        End::Exit(0) => {}
        End::Signal(sig) => {
            let k = r.open_op().and_then(|v| v["k"].as_u64());
            match k {
                Some(k) => o.set_fail(
                    format!("C23/{ctx}/{}/process-killed-by-signal-{sig}", phase_name(k)),
                    format!("{ctx}: the process died (signal {sig}) during the {}; {}", phase_name(k), r.stderr_tail.lines().rev().take(2).collect::<Vec<_>>().join(" | ")),
                ),
                None => o.excluded = Some("child-died-outside-any-phase"),
            }
            return o;
        }
        End::Deadline { .. } => {
            o.excluded = Some("child-hung");
            return o;
        }
        End::Exit(_) => {
            o.excluded = Some("child-exited-nonzero");
            return o;
        }
    }
    for d in &dones {
        let k = d["k"].as_u64().unwrap_or(0);
        if let Some(p) = d["problems"].as_array().and_then(|a| a.first()).and_then(|x| x.as_str()) {
            let kind = if p.contains("remaining_stack") {
                "callback-entered-with-less-than-the-red-zone"
            } else if p.contains("outside the last reported segment") {
                "stack-pointer-outside-the-last-reported-segment"
            } else if p.contains("second descent") {
                "second-descent-from-the-same-frame-differs"
            } else {
                "segments-differ-across-a-caught-panic"
            };
            o.set_fail(format!("C23/{ctx}/{}/{kind}", phase_name(k)), format!("{ctx}, {}: {p}", phase_name(k)));
            return o;
        }
        let want = model(c, k == 0);
        let got: u64 = d["value"].as_str().and_then(|s| s.parse().ok()).unwrap_or(0);
        if got != want {
            o.set_fail(format!("C23/{ctx}/{}/value-changed", phase_name(k)), format!("{ctx}, {}: recursion returned {got}, model says {want}", phase_name(k)));
            return o;
        }
        if c.coroutine && d["infos_equal"].as_bool() == Some(false) {
            o.set_fail(format!("C23/{ctx}/{}/segments-not-restored", phase_name(k)), format!("coroutine: stack_infos() after the {} differs from the value before", phase_name(k)));
            return o;
        }
    }
    if dones.len() < 2 {
        // a coroutine whose stack overflowed is ended by the runtime's trap handler
        let res = r.result().map(|v| v["resume"].to_string()).unwrap_or_default();
        let k = dones.len() as u64;
        o.set_fail(
            format!("C23/{ctx}/{}/did-not-complete", phase_name(k)),
            format!("{ctx}: the {} did not complete; resume result {res}; {}", phase_name(k), r.stderr_tail.lines().rev().take(2).collect::<Vec<_>>().join(" | ")),
        );
        return o;
    }
    // growth decisions: phase 1 must decide like phase 0 for the levels phase 0 reached
    let s0: Vec<bool> = dones[0]["switched"].as_array().map(|a| a.iter().map(|x| x.as_bool().unwrap_or(false)).collect()).unwrap_or_default();
    let s1: Vec<bool> = dones[1]["switched"].as_array().map(|a| a.iter().map(|x| x.as_bool().unwrap_or(false)).collect()).unwrap_or_default();
    if let Some(lvl) = (0..s0.len().min(s1.len())).find(|i| s0[*i] != s1[*i]) {
        o.set_fail(
            format!("C23/{ctx}/recursion-after-caught-panic/growth-decisions-differ"),
            format!("{ctx}: at level {lvl} the first recursion {} a fresh segment, the identical recursion after the caught panic {}", if s0[lvl] { "switched to" } else { "did not need" }, if s1[lvl] { "switched to one" } else { "did not" }),
        );
    }
    o
}

pub fn main(args: &Args) -> i32 {
    if let Some(p) = &args.replay {
        let (_, _, case) = vkit::load_replay(p);
        return vkit::replay_verdict("C23", p, &exec(&serde_json::from_value(case).expect("case")));
    }
    let mut ev = Evidence::new("C23", args, "exploration");
    ev.assume("segment size >= red zone + 16 KiB and a level's own frame <= red zone - 8 KiB (the callback is promised the red zone, not more)");
    ev.assume("'same stack' is decided from the distance between the caller's and the callback's stack pointer (< 4 KiB apart and below)");
    ev.add(vkit::run_regress("C23", |_s, case| exec(&serde_json::from_value(case).expect("case"))));
    if ev.has_violations() {
        return ev.finish();
    }
    ev.add(vkit::run_prop(
        &RunCfg {
            property: "C23",
            sub: "growth",
            rule: "fresh child per case: coroutine | 256 KiB thread, red zone 8..64 KiB, segment = red zone + 16..128 KiB, 1..80 levels of 1/4/8/16 KiB frames each through maybe_grow_with, optional panic at a level caught at an outer level, then the same recursion again; non-trivial = the panic unwound through at least one grown segment",
            seed: args.seed,
            cases: args.cases(1_200, 20_000),
            shards: 16,
            max_shrink_iters: 300,
        },
        strategy,
        exec,
    ));
    ev.finish()
}

//! C26 — process-wide named singletons are unique under concurrent first use.
//!
//! Sub-run `get_or_default`: N threads ask for the same fresh bean name at (almost) the same
//! time; the bean type's `Default::default()` is a harness rendezvous that waits up to 20 ms
//! for the generated number of other threads to be inside `default()` too, so the case owns
//! the interleaving of the check-then-create window without any hook.
//! Sub-run `factory`: the same for the bean factory itself, in a fresh child process (the
//! factory is created once per process); hook H4 parks the threads that saw "no factory yet".
//! Oracle: all returned addresses are equal, and equal to what a later lookup returns.

use open_coroutine_core::common::beans::BeanFactory;
use proptest::prelude::*;
use serde::{Deserialize, Serialize};
use serde_json::json;
use std::sync::atomic::{AtomicUsize, Ordering};
use std::sync::{Arc, Barrier};
use std::time::{Duration, Instant};
use vkit::child::{self, ChildSpec, End};
use vkit::{Args, Evidence, Outcome, RunCfg};

#[derive(Debug, Clone, Serialize, Deserialize)]
pub struct Case {
    pub threads: u8,
    /// how many threads the rendezvous waits for (clamped to threads)
    pub rendezvous: u8,
    /// per-thread start offsets in units of 50 µs
    pub offsets: Vec<u8>,
}

pub fn strategy() -> impl Strategy<Value = Case> {
    (2u8..=16, 1u8..=6, proptest::collection::vec(prop_oneof![3 => Just(0u8), 1 => 0u8..20], 16)).prop_map(|(threads, rendezvous, offsets)| Case { threads, rendezvous, offsets })
}

static WANT: AtomicUsize = AtomicUsize::new(1);
static INSIDE: AtomicUsize = AtomicUsize::new(0);
static MAX_INSIDE: AtomicUsize = AtomicUsize::new(0);
static SERIAL: AtomicUsize = AtomicUsize::new(0);
/// number of threads that had entered the lookup before the first one returned
static CONCURRENT_FIRST: AtomicUsize = AtomicUsize::new(0);

fn rendezvous() {
    let n = INSIDE.fetch_add(1, Ordering::SeqCst) + 1;
    MAX_INSIDE.fetch_max(n, Ordering::SeqCst);
    let t = Instant::now();
    while INSIDE.load(Ordering::SeqCst) < WANT.load(Ordering::SeqCst) && t.elapsed() < Duration::from_millis(20) {
        std::hint::spin_loop();
    }
}

#[derive(Debug)]
pub struct RdvBean {
    pub marker: usize,
}
impl Default for RdvBean {
    fn default() -> Self {
        rendezvous();
        RdvBean { marker: 0xbea7 }
    }
}

fn race(c: &Case, name: &str) -> (Vec<usize>, usize) {
    let n = c.threads.clamp(2, 16) as usize;
    WANT.store((c.rendezvous as usize).clamp(1, n), Ordering::SeqCst);
    INSIDE.store(0, Ordering::SeqCst);
    MAX_INSIDE.store(0, Ordering::SeqCst);
    let barrier = Arc::new(Barrier::new(n));
    let name: &'static str = Box::leak(name.to_string().into_boxed_str());
    let hs: Vec<_> = (0..n)
        .map(|i| {
            let b = barrier.clone();
            let off = c.offsets.get(i).copied().unwrap_or(0);
            std::thread::spawn(move || {
                b.wait();
                let t = Instant::now();
                while t.elapsed() < Duration::from_micros(u64::from(off) * 50) {
                    std::hint::spin_loop();
                }
                let t_in = Instant::now();
                let r: &RdvBean = BeanFactory::get_or_default::<RdvBean>(name);
                let t_out = Instant::now();
                (std::ptr::from_ref(r) as usize, t_in, t_out)
            })
        })
        .collect();
    let res: Vec<(usize, Instant, Instant)> = hs.into_iter().map(|h| h.join().expect("thread")).collect();
    let first_out = res.iter().map(|r| r.2).min().unwrap();
    CONCURRENT_FIRST.store(res.iter().filter(|r| r.1 < first_out).count(), Ordering::SeqCst);
    let addrs: Vec<usize> = res.iter().map(|r| r.0).collect();
    let later = BeanFactory::get_bean::<RdvBean>(name).map_or(0, |r| std::ptr::from_ref(r) as usize);
    (addrs, later)
}

fn judge(addrs: &[usize], later: usize, what: &str) -> Outcome {
    let max_inside = MAX_INSIDE.load(Ordering::SeqCst);
    let conc = CONCURRENT_FIRST.load(Ordering::SeqCst);
    let mut o = Outcome::pass()
        .nt(max_inside >= 2 || conc >= 2)
        .class_if(max_inside >= 2, "2+threads-in-the-creating-branch-together")
        .class_if(conc >= 2, "2+threads-entered-before-the-first-returned");
    let distinct: std::collections::BTreeSet<usize> = addrs.iter().copied().collect();
    if distinct.len() != 1 {
        o.set_fail(
            format!("C26/{what}/threads-received-different-instances"),
            format!("{} threads received {} distinct instances of one named object ({} were creating it at the same time)", addrs.len(), distinct.len(), max_inside),
        );
    } else if later != addrs[0] {
        o.set_fail(format!("C26/{what}/later-lookup-returns-another-instance"), format!("threads got {:#x}, a later lookup returns {later:#x}", addrs[0]));
    }
    o
}

pub fn exec_get_or_default(c: &Case) -> Outcome {
    let serial = SERIAL.fetch_add(1, Ordering::SeqCst);
    let (addrs, later) = race(c, &format!("c26-bean-{serial}-{}", std::process::id()));
    judge(&addrs, later, "get_or_default")
}

// ---- factory creation, in a child -------------------------------------------------------

fn h4_handler(name: &'static str, _a: u64, _b: u64) {
    if name == "bean_factory:creating" {
        rendezvous();
    }
}

#[derive(Debug, Default)]
pub struct PlainBean {
    pub x: usize,
}

pub fn child_main() -> i32 {
    let c: Case = serde_json::from_value(child::read_stdin_json()).expect("case");
    let n = c.threads.clamp(2, 16) as usize;
    WANT.store((c.rendezvous as usize).clamp(1, n), Ordering::SeqCst);
    open_coroutine_core::verif::set_handler(Some(h4_handler));
    let barrier = Arc::new(Barrier::new(n));
    let hs: Vec<_> = (0..n)
        .map(|i| {
            let b = barrier.clone();
            let off = c.offsets.get(i).copied().unwrap_or(0);
            std::thread::spawn(move || {
                b.wait();
                let t = Instant::now();
                while t.elapsed() < Duration::from_micros(u64::from(off) * 50) {
                    std::hint::spin_loop();
                }
                // the very first bean access of the process creates the factory
                let r: &PlainBean = BeanFactory::get_or_default::<PlainBean>("c26-factory-probe");
                std::ptr::from_ref(r) as usize
            })
        })
        .collect();
    let addrs: Vec<usize> = hs.into_iter().map(|h| h.join().expect("thread")).collect();
    open_coroutine_core::verif::set_handler(None);
    let later = BeanFactory::get_bean::<PlainBean>("c26-factory-probe").map_or(0, |r| std::ptr::from_ref(r) as usize);
    child::emit(json!({"ev":"result","addrs":addrs,"later":later,"max_inside":MAX_INSIDE.load(Ordering::SeqCst)}));
    0
}

pub fn exec_factory(c: &Case) -> Outcome {
    let js = serde_json::to_string(c).unwrap();
    let r = child::run_child(&ChildSpec { args: vec!["C26child".into()], stdin: &js, timeout: Duration::from_secs(20), env: vec![] });
    if r.end != End::Exit(0) {
        return Outcome { excluded: Some("child-did-not-exit-cleanly"), ..Outcome::pass() };
    }
    let Some(res) = r.result() else { return Outcome { excluded: Some("child-gave-no-result"), ..Outcome::pass() } };
    let addrs: Vec<usize> = res["addrs"].as_array().map(|a| a.iter().filter_map(|x| x.as_u64().map(|v| v as usize)).collect()).unwrap_or_default();
    let later = res["later"].as_u64().unwrap_or(0) as usize;
    MAX_INSIDE.store(res["max_inside"].as_u64().unwrap_or(0) as usize, Ordering::SeqCst);
    CONCURRENT_FIRST.store(0, Ordering::SeqCst);
    judge(&addrs, later, "factory")
}

pub fn replay(sub: &str, case: serde_json::Value) -> Outcome {
    let c: Case = serde_json::from_value(case).expect("case");
    if sub == "factory" {
        exec_factory(&c)
    } else {
        exec_get_or_default(&c)
    }
}

pub fn main(args: &Args) -> i32 {
    if let Some(p) = &args.replay {
        let (_, sub, case) = vkit::load_replay(p);
        // schedule-dependent: "fails at least once in 20 runs"
        let mut last = Outcome::pass();
        for _ in 0..20 {
            last = replay(&sub, case.clone());
            if last.fail.is_some() {
                break;
            }
        }
        return vkit::replay_verdict("C26", p, &last);
    }
    let mut ev = Evidence::new("C26", args, "exploration");
    ev.assume("real threads; the rendezvous inside Default::default() / hook H4 forces the check-then-create window to overlap (whether it did is measured and decides only whether the case counts as non-trivial)");
    ev.add(vkit::run_regress("C26", replay));
    if ev.has_violations() {
        return ev.finish();
    }
    ev.add(vkit::run_prop(
        &RunCfg { property: "C26", sub: "get_or_default", rule: "2..16 threads x rendezvous size 1..6 x start offsets, fresh bean name per case; non-trivial = >=2 threads were inside the creating branch at the same time, or >=2 threads had entered the lookup before the first one returned (both measured)", seed: args.seed, cases: args.cases(300, 10_000), shards: 1, max_shrink_iters: 200 },
        strategy,
        exec_get_or_default,
    ));
    ev.add(vkit::run_prop(
        &RunCfg { property: "C26", sub: "factory", rule: "fresh child process per case: 2..16 threads make the process's first bean access; hook H4 holds those that saw no factory yet; non-trivial = >=2 threads were creating the factory at the same time (measured)", seed: args.seed, cases: args.cases(120, 3_000), shards: 4, max_shrink_iters: 100 },
        strategy,
        exec_factory,
    ));
    ev.finish()
}

//! C06 — work in the shared queue is not starved by local work; an idle local queue finds
//! work waiting in a sibling or in the shared queue.
//!
//!  F  fairness: a local queue is kept non-empty *and below capacity* (so neither an
//!     overflow nor a steal can happen and the model knows every item's location) while the
//!     shared queue holds directly-pushed items. Oracle: for each local queue, never 61
//!     consecutive pops on it that all return local items while the shared queue was
//!     non-empty throughout.
//!  I  idle: arbitrary histories (overflows, steals). Oracle: a pop on any local queue
//!     returns `Some` whenever pushed − popped > 0, i.e. whenever *some* queue holds work
//!     (single-threaded, so the count is exact without modelling locations).
//! Both the priority queue and the plain queue.

use super::qreal::{self, Op, Q};
use proptest::prelude::*;
use serde::{Deserialize, Serialize};
use std::collections::HashMap;
use std::time::Duration;
use vkit::{pick, Args, Evidence, Outcome, RunCfg};

#[derive(Debug, Clone, Serialize, Deserialize)]
pub struct Hist {
    pub ordered: bool,
    pub nlocals: u8,
    pub cap: u16,
    pub ops: Vec<Op>,
}

pub fn hist_f_strategy(max_ops: usize) -> impl Strategy<Value = Hist> {
    hist_f(max_ops)
}

fn hist_f(max_ops: usize) -> impl Strategy<Value = Hist> {
    (
        any::<bool>(),
        prop_oneof![4 => Just(1u8), 1 => Just(2u8), 1 => Just(3u8)],
        prop_oneof![2 => 3u16..=8, 2 => 8u16..=64, 1 => Just(256u16)],
        // pop-heavy on purpose: windows of >= 61 pops must be common
        proptest::collection::vec(qreal::op(5, 9, 2, 0), 70..max_ops),
    )
        .prop_map(|(ordered, nlocals, cap, ops)| Hist { ordered, nlocals, cap, ops })
}

pub fn hist_i_strategy(max_ops: usize) -> impl Strategy<Value = Hist> {
    hist_i(max_ops)
}

fn hist_i(max_ops: usize) -> impl Strategy<Value = Hist> {
    (
        any::<bool>(),
        2u8..=4,
        prop_oneof![3 => 1u16..=8, 1 => 8u16..=32],
        proptest::collection::vec(qreal::op(7, 6, 1, 1), 1..max_ops),
    )
        .prop_map(|(ordered, nlocals, cap, ops)| Hist { ordered, nlocals, cap, ops })
}

/// F: normalised so that every local stays in [1, cap-1] items whenever it is popped
/// (a pop on a queue with exactly one item is preceded by a refill push).
pub fn exec_f(h: &Hist) -> Outcome {
    let nl = h.nlocals.max(1) as usize;
    let cap = (h.cap.max(2)) as usize;
    let mut fail: Option<(String, String)> = None;
    let mut longest_window = 0u32;
    let mut shared_served = 0u32;
    let ((), _d, stranded) = qreal::with_queue(h.ordered, nl, cap, |q: &Q<'_>| {
        let mut local_cnt = vec![0usize; nl];
        let mut where_is: HashMap<u32, Option<usize>> = HashMap::new(); // id -> Some(local) / None = shared
        let mut shared_cnt = 0usize;
        let mut streak = vec![0u32; nl]; // consecutive local-served pops while shared non-empty
        let mut next = 0u32;
        for op in &h.ops {
            if fail.is_some() {
                break;
            }
            match *op {
                Op::LPush { q: qi, prio } => {
                    let qi = pick(qi, nl);
                    if local_cnt[qi] + 1 >= cap {
                        continue; // keep strictly below capacity
                    }
                    q.lpush(qi, prio, next);
                    where_is.insert(next, Some(qi));
                    local_cnt[qi] += 1;
                    next += 1;
                }
                Op::LPushDefault { q: qi } => {
                    let qi = pick(qi, nl);
                    if local_cnt[qi] + 1 >= cap {
                        continue;
                    }
                    q.lpush_default(qi, next);
                    where_is.insert(next, Some(qi));
                    local_cnt[qi] += 1;
                    next += 1;
                }
                Op::SPush { prio } => {
                    q.spush(prio, next);
                    where_is.insert(next, None);
                    shared_cnt += 1;
                    next += 1;
                }
                Op::SPop => {}
                Op::LPop { q: qi } => {
                    let qi = pick(qi, nl);
                    // refill so that the queue stays non-empty after this pop
                    while local_cnt[qi] < 2 && local_cnt[qi] + 1 < cap {
                        q.lpush(qi, 0, next);
                        where_is.insert(next, Some(qi));
                        local_cnt[qi] += 1;
                        next += 1;
                    }
                    if local_cnt[qi] == 0 {
                        continue;
                    }
                    let shared_before = shared_cnt;
                    match q.lpop(qi) {
                        None => {
                            fail = Some((
                                "C06/F/pop-none-while-local-nonempty".into(),
                                format!("local {qi} holds {} items, pop() returned None", local_cnt[qi]),
                            ));
                        }
                        Some(id) => match where_is.remove(&id) {
                            Some(None) => {
                                shared_cnt -= 1;
                                shared_served += 1;
                                streak[qi] = 0;
                            }
                            Some(Some(l)) => {
                                local_cnt[l] -= 1;
                                if l != qi {
                                    fail = Some((
                                        "C06/F/unexpected-steal".into(),
                                        format!("pop on non-empty local {qi} returned item#{id} of local {l}"),
                                    ));
                                }
                                if shared_before > 0 {
                                    streak[qi] += 1;
                                    longest_window = longest_window.max(streak[qi]);
                                    if streak[qi] >= 61 {
                                        fail = Some((
                                            "C06/F/shared-item-starved-for-61-pops".into(),
                                            format!(
                                                "{} consecutive pops on local {qi} returned local items while the shared queue held {} item(s) throughout",
                                                streak[qi], shared_before
                                            ),
                                        ));
                                    }
                                } else {
                                    streak[qi] = 0;
                                }
                            }
                            None => {
                                fail = Some(("C06/F/unknown-item".into(), format!("pop returned unknown item#{id}")));
                            }
                        },
                    }
                }
            }
            // a queue's streak only counts while shared stays non-empty
            if shared_cnt == 0 {
                for s in streak.iter_mut() {
                    *s = 0;
                }
            }
        }
    });
    let mut o = Outcome::pass()
        .nt(longest_window >= 30 && shared_served >= 1)
        .class_if(shared_served >= 1, "shared-item-served-by-local-pop")
        .class_if(longest_window >= 60, "window-60-reached")
        .class_if(h.ordered, "ordered-queue")
        .class_if(!h.ordered, "plain-queue");
    if let Some((a, b)) = fail {
        o.set_fail(a, b);
    } else if stranded {
        o.set_fail("C06/F/items-stranded-after-drain", "final drain left items behind");
    }
    o
}

/// F2: fairness with overflows allowed. The model no longer knows locations; the public
/// `len()` of the shared queue is the ground truth instead (exact single-threaded, C03):
/// a pop that leaves a non-empty shared queue's length unchanged was served locally.
pub fn exec_f2(h: &Hist) -> Outcome {
    let nl = h.nlocals.max(1) as usize;
    let cap = h.cap.max(1) as usize;
    let mut fail: Option<(String, String)> = None;
    let mut longest = 0u32;
    let mut shared_served = 0u32;
    let mut overflows = 0u32;
    let ((), _d, _stranded) = qreal::with_queue(h.ordered, nl, cap, |q: &Q<'_>| {
        let mut streak = vec![0u32; nl];
        let mut outstanding = 0usize;
        let mut next = 0u32;
        let case_json = || serde_json::to_string(h).unwrap();
        for op in &h.ops {
            if fail.is_some() {
                break;
            }
            match *op {
                Op::LPush { q: qi, prio } => {
                    let qi = pick(qi, nl);
                    let s0 = q.shared_len();
                    vkit::hang::guard("F2", "C04/push/does-not-return", case_json, || q.lpush(qi, prio, next));
                    if q.shared_len() > s0 {
                        overflows += 1;
                    }
                    outstanding += 1;
                    next += 1;
                }
                Op::LPushDefault { q: qi } => {
                    let qi = pick(qi, nl);
                    let s0 = q.shared_len();
                    vkit::hang::guard("F2", "C04/push/does-not-return", case_json, || q.lpush_default(qi, next));
                    if q.shared_len() > s0 {
                        overflows += 1;
                    }
                    outstanding += 1;
                    next += 1;
                }
                Op::SPush { prio } => {
                    q.spush(prio, next);
                    outstanding += 1;
                    next += 1;
                }
                Op::SPop => {}
                Op::LPop { q: qi } => {
                    let qi = pick(qi, nl);
                    // keep the popped queue non-empty (the refill itself may overflow)
                    if q.local_len(qi) < 2 {
                        let s0 = q.shared_len();
                        vkit::hang::guard("F2", "C04/push/does-not-return", case_json, || q.lpush(qi, 0, next));
                        if q.shared_len() > s0 {
                            overflows += 1;
                        }
                        outstanding += 1;
                        next += 1;
                    }
                    let s0 = q.shared_len();
                    let got = vkit::hang::guard("F2", "C04/pop/does-not-return", case_json, || q.lpop(qi));
                    let s1 = q.shared_len();
                    match got {
                        None => {
                            if outstanding > 0 {
                                fail = Some(("C06/F2/pop-none-while-work-waiting".into(), format!("{outstanding} items outstanding")));
                            }
                        }
                        Some(_) => {
                            outstanding -= 1;
                            if s0 == 0 {
                                streak[qi] = 0;
                            } else if s1 + 1 == s0 {
                                shared_served += 1;
                                streak[qi] = 0;
                            } else if s1 == s0 {
                                streak[qi] += 1;
                                longest = longest.max(streak[qi]);
                                if streak[qi] >= 61 {
                                    let kind = if h.ordered { "ordered" } else { "plain" };
                                    fail = Some((
                                        format!("C06/F2/{kind}/shared-queue-starved-for-61-pops"),
                                        format!(
                                            "{} consecutive pops on local {qi} were served locally while the shared queue reported {} item(s) before each of them",
                                            streak[qi], s0
                                        ),
                                    ));
                                }
                            } else {
                                fail = Some((
                                    "C06/F2/shared-len-jumped-during-a-pop".into(),
                                    format!("shared len {s0} -> {s1} across one pop"),
                                ));
                            }
                        }
                    }
                    // pops on other queues do not interrupt a queue's own window, but an empty
                    // shared queue does
                    if q.shared_len() == 0 {
                        for s in streak.iter_mut() {
                            *s = 0;
                        }
                    }
                }
            }
        }
    });
    let mut o = Outcome::pass()
        .nt(longest >= 30 && shared_served >= 1 && overflows >= 1)
        .class_if(shared_served >= 1, "shared-item-served-by-local-pop")
        .class_if(longest >= 60, "window-60-reached")
        .class_if(overflows >= 1, "overflow-happened")
        .class_if(h.ordered, "ordered-queue")
        .class_if(!h.ordered, "plain-queue");
    if let Some((a, b)) = fail {
        o.set_fail(a, b);
    }
    o
}

pub fn hist_f2_strategy(max_ops: usize) -> impl Strategy<Value = Hist> {
    hist_f2(max_ops)
}

fn hist_f2(max_ops: usize) -> impl Strategy<Value = Hist> {
    (
        any::<bool>(),
        prop_oneof![4 => Just(1u8), 1 => Just(2u8)],
        prop_oneof![3 => 2u16..=4, 2 => 5u16..=9, 1 => 10u16..=33],
        proptest::collection::vec(qreal::op(7, 9, 1, 0), 100..max_ops),
    )
        .prop_map(|(ordered, nlocals, cap, ops)| Hist { ordered, nlocals, cap, ops })
}

/// I: idle queues obtain work. Any history; exact count oracle.
pub fn exec_i(h: &Hist) -> Outcome {
    let nl = h.nlocals.max(2) as usize;
    let cap = h.cap.max(1) as usize;
    let mut fail: Option<(String, String)> = None;
    let mut foreign_served = 0u32;
    let mut after_victim = false;
    let case_json = || serde_json::to_string(h).unwrap();
    let ((), _drained, stranded) = qreal::with_queue(h.ordered, nl, cap, |q: &Q<'_>| {
        let mut origin: HashMap<u32, Option<usize>> = HashMap::new();
        let mut outstanding = 0usize;
        let mut was_victim = vec![false; nl];
        let mut next = 0u32;
        for (k, op) in h.ops.iter().enumerate() {
            if fail.is_some() {
                break;
            }
            match *op {
                Op::LPush { q: qi, prio } => {
                    let qi = pick(qi, nl);
                    vkit::hang::guard("I", "C04/push/does-not-return", case_json, || q.lpush(qi, prio, next));
                    origin.insert(next, Some(qi));
                    outstanding += 1;
                    next += 1;
                }
                Op::LPushDefault { q: qi } => {
                    let qi = pick(qi, nl);
                    vkit::hang::guard("I", "C04/push/does-not-return", case_json, || q.lpush_default(qi, next));
                    origin.insert(next, Some(qi));
                    outstanding += 1;
                    next += 1;
                }
                Op::SPush { prio } => {
                    q.spush(prio, next);
                    origin.insert(next, None);
                    outstanding += 1;
                    next += 1;
                }
                Op::SPop => {
                    if let Some(id) = q.spop() {
                        origin.remove(&id);
                        outstanding -= 1;
                    }
                }
                Op::LPop { q: qi } => {
                    let qi = pick(qi, nl);
                    let got = vkit::hang::guard("I", "C04/pop/does-not-return", case_json, || q.lpop(qi));
                    match got {
                        Some(id) => {
                            match origin.remove(&id) {
                                Some(Some(l)) if l != qi => {
                                    foreign_served += 1;
                                    was_victim[l] = true;
                                }
                                Some(None) => foreign_served += 1,
                                Some(_) => {}
                                None => {
                                    fail = Some((
                                        "C06/I/pop-returned-unknown-or-duplicate-item".into(),
                                        format!("op {k}: pop on local {qi} returned item#{id} which is not outstanding"),
                                    ));
                                }
                            }
                            outstanding = outstanding.saturating_sub(1);
                        }
                        None => {
                            if was_victim[qi] {
                                after_victim = true;
                            }
                            if outstanding > 0 {
                                let kind = if h.ordered { "ordered" } else { "plain" };
                                fail = Some((
                                    format!("C06/I/{kind}/pop-none-while-work-waiting"),
                                    format!(
                                        "op {k}: pop on local {qi} returned None while {outstanding} pushed item(s) are still waiting in some queue (queue {qi} was{} stolen from earlier)",
                                        if was_victim[qi] { "" } else { " not" }
                                    ),
                                ));
                            }
                        }
                    }
                }
            }
        }
    });
    let mut o = Outcome::pass()
        .nt(foreign_served >= 1)
        .class_if(foreign_served >= 1, "pop-served-foreign-item")
        .class_if(after_victim, "former-victim-found-nothing")
        .class_if(h.ordered, "ordered-queue")
        .class_if(!h.ordered, "plain-queue");
    if let Some((a, b)) = fail {
        o.set_fail(a, b);
    } else if stranded {
        let kind = if h.ordered { "ordered" } else { "plain" };
        o.set_fail(
            format!("C06/I/{kind}/items-stranded-after-drain"),
            "after the history, popping every local queue until it reports empty (3 rounds) left items in the queues",
        );
    }
    o
}

pub fn replay(sub: &str, case: serde_json::Value) -> Outcome {
    match sub {
        "F" => exec_f(&serde_json::from_value(case).expect("case")),
        "F2" => exec_f2(&serde_json::from_value(case).expect("case")),
        "I" => exec_i(&serde_json::from_value(case).expect("case")),
        _ => Outcome::fail("C06/replay/unknown-sub", sub.to_string()),
    }
}

pub fn main(args: &Args) -> i32 {
    vkit::hang::start_monitor_inconclusive("C06", Duration::from_secs(20));
    if let Some(p) = &args.replay {
        let (_, sub, case) = vkit::load_replay(p);
        return vkit::replay_verdict("C06", p, &replay(&sub, case));
    }
    let mut ev = Evidence::new("C06", args, "exploration");
    ev.assume("single-threaded histories: 'non-empty' is exact in the model");
    ev.assume("st3 / crossbeam-deque / skiplist are trusted to be correct containers");
    ev.add(vkit::run_regress("C06", |sub, case| replay(sub, case)));
    if ev.has_violations() {
        return ev.finish();
    }
    let mk = |sub: &'static str, rule: &'static str, cases: u32| RunCfg {
        property: "C06",
        sub,
        rule,
        seed: args.seed,
        cases,
        shards: 8,
        max_shrink_iters: 6000,
    };
    ev.add(vkit::run_prop(
        &mk("F", "pop-heavy histories keeping each popped local queue non-empty and below capacity while items sit in the shared queue; non-trivial = a window of >=30 consecutive local-served pops with the shared queue non-empty was reached and a shared item was served by a local pop", args.cases(6_000, 200_000)),
        || hist_f(args.tier.pick(260, 600)),
        exec_f,
    ));
    ev.add(vkit::run_prop(
        &mk("F2", "pop-heavy histories with small capacities so that pushes overflow into the shared queue; the shared queue's own len() before/after each pop tells who served it; non-trivial = an overflow happened, a shared item was served by a local pop and a window of >=30 locally-served pops with the shared queue non-empty was reached", args.cases(6_000, 200_000)),
        || hist_f2(args.tier.pick(400, 800)),
        exec_f2,
    ));
    ev.add(vkit::run_prop(
        &mk("I", "arbitrary push/pop histories over 2..4 local queues + shared with small capacities (overflows and steals happen); non-trivial = some pop returned an item pushed elsewhere (stolen or via the shared queue)", args.cases(30_000, 1_000_000)),
        || hist_i(args.tier.pick(80, 200)),
        exec_i,
    ));
    ev.finish()
}

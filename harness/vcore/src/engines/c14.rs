//! C14 — hooked timed waits honour the requested timeout.
//!
//! Case: a caller kind (plain thread | task on an event loop) and 1..4 timed calls out of
//! {sleep, usleep, nanosleep, poll, select, pthread_cond_timedwait} with generated time
//! arguments (zero, sub-millisecond, millisecond, boundary, invalid, maximal-with-a-ready-
//! descriptor). Fresh child per case; every call is bracketed by `start k` / `done k`.
//! Oracle per call:
//!  * nothing ready  => elapsed >= requested (exact up to 200 us + 1 %) and
//!    elapsed <= requested + max(100 ms, requested / 2); a call still open 2 s after its
//!    upper bound is cut by killing the child and reported for that call;
//!  * a descriptor is ready => prompt return (< 100 ms) with the count the native call
//!    reports for the same arguments in the same child;
//!  * invalid time arguments => the same (return value, errno) as the native call made in
//!    the same child; never an abort.

use libc::{c_int, c_uint, timespec, timeval};
use open_coroutine_core::config::Config;
use open_coroutine_core::net::EventLoops;
use open_coroutine_core::syscall as hooked;
use proptest::prelude::*;
use serde::{Deserialize, Serialize};
use serde_json::{json, Value};
use std::sync::mpsc;
use std::time::{Duration, Instant};
use vkit::child::{self, ChildSpec, End};
use vkit::{Args, Evidence, Outcome, RunCfg};

#[derive(Debug, Clone, Copy, Serialize, Deserialize, PartialEq)]
pub enum Call {
    Sleep { secs: u8 },
    Usleep { us: u32 },
    Nanosleep { sec: i64, nsec: i64 },
    /// poll one socketpair end for POLLIN; `ready` = a byte is pending on it
    Poll { ms: i32, ready: bool },
    /// select on one socketpair end for readability; `null` = no timeout pointer
    Select { sec: i64, usec: i64, null: bool, ready: bool },
    /// abstime = CLOCK_REALTIME now + delta_us, tv_nsec optionally replaced by `bad_nsec`
    CondTimedwait { delta_us: i64, bad_nsec: Option<i64> },
}

#[derive(Debug, Clone, Serialize, Deserialize)]
pub struct Case {
    /// false = plain thread, true = task on the event loop
    pub in_task: bool,
    pub calls: Vec<Call>,
    /// unrelated readiness while the calls wait: the caller first makes a hooked recv on
    /// another socket time out (10 ms SO_RCVTIMEO; its read interest stays registered under
    /// the caller's token), then a helper thread writes a byte to that socket's peer every
    /// 2 ms for as long as the calls run. Nothing the calls wait for becomes ready.
    #[serde(default)]
    pub noise: bool,
}

impl Call {
    /// requested wait in ns when nothing is ready and the arguments are valid
    pub fn requested_ns(&self) -> Option<u64> {
        match *self {
            Call::Sleep { secs } => Some(u64::from(secs) * 1_000_000_000),
            Call::Usleep { us } => Some(u64::from(us) * 1_000),
            Call::Nanosleep { sec, nsec } => {
                if self.invalid() {
                    None
                } else {
                    Some(sec as u64 * 1_000_000_000 + nsec as u64)
                }
            }
            Call::Poll { ms, ready } => {
                if ready || ms < 0 {
                    None
                } else {
                    Some(ms as u64 * 1_000_000)
                }
            }
            Call::Select { sec, usec, null, ready } => {
                if ready || null || self.invalid() {
                    None
                } else {
                    Some(sec as u64 * 1_000_000_000 + usec as u64 * 1_000)
                }
            }
            Call::CondTimedwait { delta_us, bad_nsec } => {
                if bad_nsec.is_some() {
                    None
                } else {
                    Some(delta_us.max(0) as u64 * 1_000)
                }
            }
        }
    }
    pub fn invalid(&self) -> bool {
        match *self {
            Call::Nanosleep { sec, nsec } => sec < 0 || !(0..1_000_000_000).contains(&nsec),
            Call::Select { sec, usec, null, .. } => !null && (sec < 0 || usec < 0),
            Call::CondTimedwait { bad_nsec, .. } => bad_nsec.is_some(),
            _ => false,
        }
    }
    pub fn ready(&self) -> bool {
        matches!(*self, Call::Poll { ready: true, .. } | Call::Select { ready: true, .. })
    }
    pub fn name(&self) -> &'static str {
        match self {
            Call::Sleep { .. } => "sleep",
            Call::Usleep { .. } => "usleep",
            Call::Nanosleep { .. } => "nanosleep",
            Call::Poll { .. } => "poll",
            Call::Select { .. } => "select",
            Call::CondTimedwait { .. } => "pthread_cond_timedwait",
        }
    }
}

fn call_strategy(thorough: bool) -> impl Strategy<Value = Call> {
    let small_us = prop_oneof![
        2 => Just(0u32),
        3 => 1u32..1_000,
        4 => 1_000u32..30_000,
        1 => Just(999u32),
        1 => Just(1_000u32),
        1 => Just(10_000u32),
        1 => 30_000u32..60_000,
    ];
    let long_sleep = if thorough { 2 } else { 1 };
    prop_oneof![
        2 => Just(Call::Sleep { secs: 0 }),
        long_sleep => Just(Call::Sleep { secs: 1 }),
        6 => small_us.clone().prop_map(|us| Call::Usleep { us }),
        // nanosleep: valid, and each invalid shape
        5 => small_us.clone().prop_map(|us| Call::Nanosleep { sec: 0, nsec: i64::from(us) * 1_000 + 7 }),
        1 => Just(Call::Nanosleep { sec: 0, nsec: 999_999_999 / 20 }),
        1 => (1i64..50).prop_map(|n| Call::Nanosleep { sec: 0, nsec: -n }),
        1 => (0i64..50).prop_map(|n| Call::Nanosleep { sec: 0, nsec: 1_000_000_000 + n }),
        1 => (1i64..5).prop_map(|n| Call::Nanosleep { sec: -n, nsec: 1_000 }),
        1 => Just(Call::Nanosleep { sec: 0, nsec: i64::MAX }),
        1 => Just(Call::Nanosleep { sec: i64::MIN, nsec: 0 }),
        // poll
        5 => (0i32..50).prop_map(|ms| Call::Poll { ms, ready: false }),
        2 => prop_oneof![Just(0i32), Just(1), Just(-1), Just(i32::MAX), Just(i32::MIN), 1i32..1000].prop_map(|ms| Call::Poll { ms, ready: true }),
        // select: idle with valid timeouts in microseconds
        6 => small_us.clone().prop_map(|us| Call::Select { sec: 0, usec: i64::from(us), null: false, ready: false }),
        // tv_usec above one second is accepted by Linux (1.0 .. 1.02 s; thorough tier only)
        1 => (0i64..20_000).prop_map(move |us| Call::Select { sec: 0, usec: if thorough { 1_000_000 + us } else { us }, null: false, ready: false }),
        // select: ready descriptor with null / zero / huge / odd timeouts
        1 => Just(Call::Select { sec: 0, usec: 0, null: true, ready: true }),
        2 => prop_oneof![Just((0i64, 0i64)), Just((0, 1)), Just((1, 0)), Just((i64::from(u32::MAX), 0)), Just((i64::from(u32::MAX) + 1, 0)), Just((i64::MAX / 2_000_000, 999_999)), Just((7, 1_999_999))]
            .prop_map(|(sec, usec)| Call::Select { sec, usec, null: false, ready: true }),
        // select: invalid (negative) fields, idle and ready
        2 => (prop_oneof![Just((-1i64, 0i64)), Just((0, -1)), Just((-5, -5)), Just((i64::MIN, 0)), Just((0, -999_999)), Just((-1, 999_999))], any::<bool>())
            .prop_map(|((sec, usec), ready)| Call::Select { sec, usec, null: false, ready }),
        // pthread_cond_timedwait
        5 => prop_oneof![Just(0i64), -5_000i64..0, 1i64..1_000, 1_000i64..50_000].prop_map(|delta_us| Call::CondTimedwait { delta_us, bad_nsec: None }),
        1 => prop_oneof![Just(-1i64), Just(1_000_000_000), Just(i64::MAX), Just(i64::MIN)].prop_map(|n| Call::CondTimedwait { delta_us: 10_000, bad_nsec: Some(n) }),
    ]
}

pub fn strategy(thorough: bool) -> impl Strategy<Value = Case> {
    (any::<bool>(), proptest::collection::vec(call_strategy(thorough), 1..5), proptest::bool::weighted(0.4)).prop_map(|(in_task, calls, noise)| Case { in_task, calls, noise })
}

fn errno() -> c_int {
    unsafe { *libc::__errno_location() }
}
fn set_errno(v: c_int) {
    unsafe { *libc::__errno_location() = v }
}

fn realtime_ns() -> i128 {
    let mut ts = timespec { tv_sec: 0, tv_nsec: 0 };
    unsafe {
        libc::clock_gettime(libc::CLOCK_REALTIME, &mut ts);
    }
    i128::from(ts.tv_sec) * 1_000_000_000 + i128::from(ts.tv_nsec)
}

struct Pair {
    idle: c_int,
    ready: c_int,
}

fn make_pairs() -> Pair {
    let mut a = [0 as c_int; 2];
    let mut b = [0 as c_int; 2];
    unsafe {
        assert_eq!(0, libc::socketpair(libc::AF_UNIX, libc::SOCK_STREAM, 0, a.as_mut_ptr()));
        assert_eq!(0, libc::socketpair(libc::AF_UNIX, libc::SOCK_STREAM, 0, b.as_mut_ptr()));
        let x = [1u8];
        assert_eq!(1, libc::write(b[1], x.as_ptr().cast(), 1));
    }
    Pair { idle: a[0], ready: b[0] }
}

/// perform one call; `native` selects the libc function instead of the hooked one.
/// returns (ret, errno after the call when ret signals failure else 0)
fn perform(c: Call, p: &Pair, native: bool) -> (i64, c_int) {
    set_errno(0);
    match c {
        Call::Sleep { secs } => {
            let r = if native { unsafe { libc::sleep(c_uint::from(secs)) } } else { hooked::sleep(None, c_uint::from(secs)) };
            (i64::from(r), 0)
        }
        Call::Usleep { us } => {
            let r = if native { unsafe { libc::usleep(us) } } else { hooked::usleep(None, us) };
            (i64::from(r), if r != 0 { errno() } else { 0 })
        }
        Call::Nanosleep { sec, nsec } => {
            let rq = timespec { tv_sec: sec, tv_nsec: nsec };
            let mut rm = timespec { tv_sec: 0, tv_nsec: 0 };
            let r = if native { unsafe { libc::nanosleep(&rq, &mut rm) } } else { hooked::nanosleep(None, &rq, &mut rm) };
            (i64::from(r), if r != 0 { errno() } else { 0 })
        }
        Call::Poll { ms, ready } => {
            let mut f = libc::pollfd { fd: if ready { p.ready } else { p.idle }, events: libc::POLLIN, revents: 0 };
            let r = if native { unsafe { libc::poll(&mut f, 1, ms) } } else { hooked::poll(None, &mut f, 1, ms) };
            (i64::from(r), if r < 0 { errno() } else { 0 })
        }
        Call::Select { sec, usec, null, ready } => {
            let fd = if ready { p.ready } else { p.idle };
            let mut set: libc::fd_set = unsafe { std::mem::zeroed() };
            unsafe {
                libc::FD_ZERO(&mut set);
                libc::FD_SET(fd, &mut set);
            }
            let mut tv = timeval { tv_sec: sec, tv_usec: usec };
            let tvp: *mut timeval = if null { std::ptr::null_mut() } else { &mut tv };
            let r = if native {
                unsafe { libc::select(fd + 1, &mut set, std::ptr::null_mut(), std::ptr::null_mut(), tvp) }
            } else {
                hooked::select(None, fd + 1, &mut set, std::ptr::null_mut(), std::ptr::null_mut(), tvp)
            };
            (i64::from(r), if r < 0 { errno() } else { 0 })
        }
        Call::CondTimedwait { delta_us, bad_nsec } => unsafe {
            let mut m: libc::pthread_mutex_t = libc::PTHREAD_MUTEX_INITIALIZER;
            let mut cv: libc::pthread_cond_t = libc::PTHREAD_COND_INITIALIZER;
            libc::pthread_mutex_lock(&mut m);
            let t = realtime_ns() + i128::from(delta_us) * 1_000;
            let abs = timespec { tv_sec: (t.div_euclid(1_000_000_000)) as i64, tv_nsec: bad_nsec.unwrap_or(t.rem_euclid(1_000_000_000) as i64) };
            let r = if native { libc::pthread_cond_timedwait(&mut cv, &mut m, &abs) } else { hooked::pthread_cond_timedwait(None, &mut cv, &mut m, &abs) };
            libc::pthread_mutex_unlock(&mut m);
            (i64::from(r), 0)
        },
    }
}

struct Noise {
    stop: std::sync::Arc<std::sync::atomic::AtomicBool>,
    thread: Option<std::thread::JoinHandle<()>>,
}

impl Drop for Noise {
    fn drop(&mut self) {
        self.stop.store(true, std::sync::atomic::Ordering::SeqCst);
        if let Some(t) = self.thread.take() {
            let _ = t.join();
        }
    }
}

fn start_noise() -> Noise {
    let mut n = [0 as c_int; 2];
    unsafe {
        assert_eq!(0, libc::socketpair(libc::AF_UNIX, libc::SOCK_STREAM, 0, n.as_mut_ptr()));
    }
    let tv = timeval { tv_sec: 0, tv_usec: 10_000 };
    let _ = hooked::setsockopt(None, n[0], libc::SOL_SOCKET, libc::SO_RCVTIMEO, std::ptr::from_ref(&tv).cast(), std::mem::size_of::<timeval>() as libc::socklen_t);
    let mut b = [0u8; 1];
    // nothing to read: this wait runs into its 10 ms limit
    let _ = hooked::recv(None, n[0], b.as_mut_ptr().cast(), 1, 0);
    let stop = std::sync::Arc::new(std::sync::atomic::AtomicBool::new(false));
    let s2 = stop.clone();
    let peer = n[1];
    let thread = std::thread::spawn(move || {
        let x = [9u8];
        while !s2.load(std::sync::atomic::Ordering::SeqCst) {
            unsafe {
                libc::send(peer, x.as_ptr().cast(), 1, libc::MSG_DONTWAIT | libc::MSG_NOSIGNAL);
            }
            std::thread::sleep(Duration::from_millis(2));
        }
    });
    Noise { stop, thread: Some(thread) }
}

fn run_calls(case: &Case) {
    let p = make_pairs();
    let _noise = if case.noise { Some(start_noise()) } else { None };
    for (k, c) in case.calls.iter().enumerate() {
        // the native answer first where it returns at once (ready descriptor / invalid arguments)
        let native = if c.ready() || c.invalid() { Some(perform(*c, &p, true)) } else { None };
        child::emit(json!({"ev":"start","k":k}));
        let t = Instant::now();
        let (ret, en) = perform(*c, &p, false);
        let el = t.elapsed().as_nanos() as u64;
        child::emit(json!({"ev":"done","k":k,"ret":ret,"errno":en,"elapsed_ns":el,"native":native.map(|(r,e)| json!([r,e]))}));
    }
}

pub fn child_main() -> i32 {
    let case: Case = serde_json::from_value(child::read_stdin_json()).expect("case");
    let mut cfg = Config::single();
    cfg.set_hook(false);
    EventLoops::init(&cfg);
    if case.in_task {
        let (tx, rx) = mpsc::channel::<()>();
        let c2 = case.clone();
        let _h = EventLoops::submit_task(
            Some("c14-caller".into()),
            move |_| {
                run_calls(&c2);
                let _ = tx.send(());
                None
            },
            None,
            None,
        );
        // the parent's deadline bounds this wait
        let _ = rx.recv();
    } else {
        run_calls(&case);
    }
    child::emit(json!({"ev":"result","ok":true}));
    unsafe { libc::_exit(0) }
}

const SLACK_MIN_NS: u64 = 100_000_000;
const CUT_NS: u64 = 2_000_000_000;

fn upper_ns(req: u64) -> u64 {
    req + SLACK_MIN_NS.max(req / 2)
}

fn judge(c: &Case, r: &vkit::child::ChildResult) -> Outcome {
    let mut o = Outcome::pass();
    let who = if c.in_task { "task" } else { "thread" };
    let dones: Vec<&Value> = r.find("done");
    for (k, call) in c.calls.iter().enumerate() {
        let Some(d) = dones.iter().find(|d| d["k"].as_u64() == Some(k as u64)) else { break };
        let ret = d["ret"].as_i64().unwrap_or(i64::MIN);
        let en = d["errno"].as_i64().unwrap_or(0);
        let el = d["elapsed_ns"].as_u64().unwrap_or(0);
        let name = call.name();
        if call.invalid() || call.ready() {
            let nr = d["native"][0].as_i64().unwrap_or(i64::MIN);
            let ne = d["native"][1].as_i64().unwrap_or(0);
            let what = if call.invalid() { "invalid-time-argument" } else { "ready-descriptor" };
            // the oracle is the native call; where the platform's own answer is not the
            // documented one for this class (an out-of-spec argument it happens to accept,
            // or an in-spec one it rejects) the case says nothing about the hook
            let native_rejects = match call {
                Call::CondTimedwait { .. } => nr == i64::from(libc::EINVAL),
                _ => nr == -1 && ne == i64::from(libc::EINVAL),
            };
            if call.invalid() != native_rejects {
                o.excluded = Some("native-call-disagrees-with-the-documented-class-of-this-argument");
                continue;
            }
            if (ret, en) != (nr, ne) {
                o.set_fail(
                    format!("C14/{name}/{what}/differs-from-native"),
                    format!("{who} call #{k} {call:?}: hooked returned {ret} (errno {en}), the native call returned {nr} (errno {ne})"),
                );
                return o;
            }
            if el > SLACK_MIN_NS {
                o.set_fail(
                    format!("C14/{name}/{what}/not-prompt"),
                    format!("{who} call #{k} {call:?} must return at once, took {} ms", el / 1_000_000),
                );
                return o;
            }
            continue;
        }
        let Some(req) = call.requested_ns() else { continue };
        // expected return value of a wait that ran out
        let expect = match call {
            Call::CondTimedwait { .. } => i64::from(libc::ETIMEDOUT),
            _ => 0,
        };
        if ret != expect {
            o.set_fail(format!("C14/{name}/unexpected-return-value"), format!("{who} call #{k} {call:?} returned {ret} (errno {en}), expected {expect}"));
            return o;
        }
        if !vkit::timing::not_early(Duration::from_nanos(el), Duration::from_nanos(req)) {
            o.set_fail(
                format!("C14/{name}/returned-earlier-than-requested"),
                format!("{who} call #{k} {call:?}: requested {} us, returned after {} us", req / 1_000, el / 1_000),
            );
            return o;
        }
        if el > upper_ns(req) {
            o.set_fail(
                format!("C14/{name}/returned-later-than-timeout-plus-slack"),
                format!("{who} call #{k} {call:?}: requested {} us, returned after {} us (bound {} us)", req / 1_000, el / 1_000, upper_ns(req) / 1_000),
            );
            return o;
        }
    }
    o
}

fn deadline(c: &Case) -> Duration {
    // every call may use its upper bound + the 2 s cut; ready/invalid calls: 2 s each
    let total: u64 = c.calls.iter().map(|x| x.requested_ns().map_or(0, upper_ns)).sum::<u64>() + CUT_NS + 500_000_000;
    Duration::from_nanos(total)
}

pub fn exec_once(c: &Case) -> Outcome {
    let js = serde_json::to_string(c).unwrap();
    let r = child::run_child(&ChildSpec { args: vec!["C14child".into()], stdin: &js, timeout: deadline(c), env: vec![] });
    let who = if c.in_task { "task" } else { "thread" };
    let mut o = judge(c, &r);
    if o.fail.is_some() {
        return o;
    }
    match &r.end {
        End::Exit(0) => {}
        End::Signal(sig) => match r.open_op().and_then(|v| v["k"].as_u64()) {
            Some(k) => {
                let call = c.calls[k as usize];
                o.set_fail(
                    format!("C14/{}/process-killed-by-signal-{sig}", call.name()),
                    format!("{who} call #{k} {call:?} killed the process (signal {sig}); {}", r.stderr_tail.lines().rev().take(3).collect::<Vec<_>>().join(" | ")),
                );
            }
            None => o.excluded = Some("child-died-outside-any-call"),
        },
        End::Deadline { .. } => match r.open_op().and_then(|v| v["k"].as_u64()) {
            Some(k) => {
                let call = c.calls[k as usize];
                let what = if call.invalid() || call.ready() { "not-prompt" } else { "returned-later-than-timeout-plus-slack" };
                let what = if call.invalid() { format!("invalid-time-argument/{what}") } else if call.ready() { format!("ready-descriptor/{what}") } else { what.to_string() };
                o.set_fail(
                    format!("C14/{}/{what}", call.name()),
                    format!("{who} call #{k} {call:?} was still open 2 s after its upper bound (requested {:?} us); the child was killed", call.requested_ns().map(|n| n / 1000)),
                );
            }
            None => o.excluded = Some("child-hung-outside-any-call"),
        },
        End::Exit(_) => o.excluded = Some("child-exited-nonzero"),
    }
    o
}

fn is_timing(sig: &str) -> bool {
    sig.ends_with("/returned-later-than-timeout-plus-slack") || sig.ends_with("/not-prompt")
}

pub fn exec(c: &Case) -> Outcome {
    let mut o = vkit::timing::confirm_repeat(exec_once(c), is_timing, || exec_once(c), 3);
    let sub_ms = c.calls.iter().any(|x| x.requested_ns().is_some_and(|n| n > 0 && n < 1_000_000));
    let ge10 = c.calls.iter().any(|x| x.requested_ns().is_some_and(|n| n >= 10_000_000));
    let inval = c.calls.iter().any(Call::invalid);
    o.nontrivial = sub_ms || ge10 || inval || c.in_task;
    o.class_if(sub_ms, "non-zero-timeout-below-1ms")
        .class_if(ge10, "timeout>=10ms")
        .class_if(inval, "invalid-time-argument")
        .class_if(c.in_task, "caller-is-a-task")
        .class_if(!c.in_task, "caller-is-a-plain-thread")
        .class_if(c.calls.iter().any(|x| matches!(x, Call::Select { .. })), "has-select")
        .class_if(c.calls.iter().any(|x| matches!(x, Call::Poll { .. })), "has-poll")
        .class_if(c.calls.iter().any(|x| matches!(x, Call::CondTimedwait { .. })), "has-cond-timedwait")
        .class_if(c.calls.iter().any(Call::ready), "ready-descriptor")
        .class_if(c.noise, "unrelated-readiness-during-the-waits")
        .class_if(c.noise && c.in_task, "unrelated-readiness-during-the-waits-of-a-task")
}

pub fn main(args: &Args) -> i32 {
    if let Some(p) = &args.replay {
        let (_, _, case) = vkit::load_replay(p);
        return vkit::replay_verdict("C14", p, &exec(&serde_json::from_value(case).expect("case")));
    }
    let mut ev = Evidence::new("C14", args, "exploration");
    ev.assume("lower bound exact up to 200 us + 1 %; upper bound = requested + max(100 ms, requested/2), confirmed by 3 immediate re-executions; a call still open 2 s after its upper bound is cut and reported");
    ev.assume("calls go through open_coroutine_core::syscall::* directly (the interposed libc symbols of the hook cdylib forward to the same functions); one event loop");
    ev.assume("pure sleeps are not generated with second-scale or maximal values beyond sleep(1); maximal timeouts are generated for poll/select with a ready descriptor");
    ev.add(vkit::run_regress("C14", |_s, case| exec(&serde_json::from_value(case).expect("case"))));
    if ev.has_violations() {
        return ev.finish();
    }
    let thorough = args.tier == vkit::Tier::Thorough;
    ev.add(vkit::run_prop(
        &RunCfg {
            property: "C14",
            sub: "timed-waits",
            rule: "fresh child per case: caller kind (thread | task) x 1..4 calls of sleep/usleep/nanosleep/poll/select/pthread_cond_timedwait with generated time arguments, optionally with unrelated readiness events arriving under the caller's token while it waits; non-trivial = a non-zero timeout below 1 ms, or >= 10 ms, or an invalid argument, or a task caller",
            seed: args.seed,
            cases: args.cases(1_500, 12_000),
            shards: 16,
            max_shrink_iters: 200,
        },
        move || strategy(thorough),
        exec,
    ));
    ev.finish()
}

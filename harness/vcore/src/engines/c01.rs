//! C01 — every submitted task runs exactly once (engine: `rt`).
//!
//! Case: configuration (1..4 event loops, max_size out of {1, 2, 8, default}) and a history of
//! bursts (1..8 submitter threads behind a barrier, each submitting up to 300 tasks with mixed
//! bodies and priorities incl. i64 extremes), single submissions, sleeps, gate tasks and
//! cancels. Oracle after quiescence (no progress for 3 s and sentinels submitted afterwards
//! ran on every loop): each task that was never cancelled executed exactly once; a cancelled
//! task at most once; nothing executed twice; the driver's submit calls all returned.

use super::rt::{self, Body, Case, Op, Run};
use proptest::prelude::*;
use std::time::Duration;
use vkit::{Args, Evidence, Outcome, RunCfg};

fn body() -> impl Strategy<Value = Body> {
    prop_oneof![
        4 => Just(Body::Return),
        1 => Just(Body::ReturnNone),
        1 => Just(Body::PanicStatic),
        1 => Just(Body::PanicString),
        2 => (0u8..4).prop_map(Body::Delay),
        1 => (0u8..3).prop_map(Body::Spin),
        1 => (1u8..3).prop_map(Body::Usleep),
        1 => Just(Body::GateSuspended),
    ]
}

pub fn strategy(thorough: bool) -> impl Strategy<Value = Case> {
    let per_max: u16 = if thorough { 300 } else { 120 };
    let op = prop_oneof![
        5 => (1u8..=8, 1u16..=per_max, any::<u8>(), any::<u8>()).prop_map(|(threads, per, mix, prio_mix)| Op::Burst { threads, per, mix, prio_mix }),
        4 => (body(), 0i8..12).prop_map(|(body, prio)| Op::Submit { body, prio }),
        2 => (0u8..6).prop_map(Op::Sleep),
        1 => any::<u16>().prop_map(|task| Op::Cancel { task, park_ms: 0 }),
        1 => any::<u16>().prop_map(|task| Op::Release { task }),
    ];
    (1u8..=4, 0u8..4, proptest::collection::vec(op, 1..7)).prop_map(|(loops, max_size, ops)| Case { loops, max_size, ops })
}

pub fn judge(c: &Case, run: Run) -> Outcome {
    let mut o = Outcome::pass();
    let l = match run {
        Run::Log(l) => l,
        Run::Broken(sig, msg, _) => {
            o.set_fail(format!("C01/{sig}"), msg);
            return o;
        }
        Run::Excluded(why) => {
            o.excluded = Some(why);
            return o;
        }
    };
    let cancelled: std::collections::HashSet<usize> = l.cancels.iter().map(|x| x.task).collect();
    let burst_threads = c.ops.iter().filter_map(|op| if let Op::Burst { threads, .. } = op { Some(*threads) } else { None }).max().unwrap_or(0);
    let total = l.tasks.len();
    let used = rt::threads_used(&l);
    o.nontrivial = burst_threads >= 2 && (total > 256 || used >= 2);
    o = o
        .class_if(burst_threads >= 2, "2+concurrent-submitter-threads")
        .class_if(total > 256 * usize::from(c.loops), "more-tasks-than-local-queue-capacity")
        .class_if(used >= 2, "tasks-ran-on-2+loop-threads")
        .class_if(c.loops >= 2, "2+event-loops")
        .class_if(rt::max_size_of(c) <= 2, "max_size<=2")
        .class_if(!cancelled.is_empty(), "has-cancel");
    if let Some(t) = l.tasks.iter().find(|t| t.exec > 1) {
        o.set_fail("C01/task-executed-more-than-once", format!("task {} ({:?}) executed {} times (last on {})", t.k, t.body, t.exec, t.thread));
        return o;
    }
    let lost: Vec<&rt::TaskLog> = l.tasks.iter().filter(|t| !cancelled.contains(&t.k) && t.exec == 0).collect();
    let unfinished = l.tasks.iter().any(|t| !cancelled.contains(&t.k) && t.ended == 0);
    if unfinished && !l.host_calm {
        // 3 s without progress on a host that does not even run a 1 ms sleeper on time says
        // nothing about the runtime
        o.excluded = Some("host-not-responsive-during-quiescence");
        return o;
    }
    if !lost.is_empty() {
        if !l.sentinels_ok {
            // nothing runs any more at all: the runtime stopped scheduling, which is a
            // different failure (still a C01 matter: tasks are stranded), reported separately
            o.set_fail(
                "C01/runtime-stopped-scheduling",
                format!("{} of {} tasks never executed and sentinels submitted afterwards did not run either (first: task {} {:?})", lost.len(), total, lost[0].k, lost[0].body),
            );
        } else {
            o.set_fail(
                "C01/task-never-executed",
                format!("{} of {} tasks never executed although the runtime kept scheduling (sentinels ran on every loop, no progress for 3 s); first: task {} {:?}", lost.len(), total, lost[0].k, lost[0].body),
            );
        }
        return o;
    }
    if let Some(t) = l.tasks.iter().find(|t| !cancelled.contains(&t.k) && t.ended == 0 && !matches!(t.body, Body::PanicStatic | Body::PanicString)) {
        o.set_fail("C01/task-started-but-never-finished", format!("task {} ({:?}) started on {} and never reached its end", t.k, t.body, t.thread));
    }
    o
}

pub fn exec_once(c: &Case) -> Outcome {
    judge(c, rt::run_case(c, Duration::from_secs(90)))
}

/// Lost or stranded work depends on the real-thread schedule, so one execution that shows it
/// is the finding (the oracle is exact: 3 s without any progress on a responsive host, with
/// sentinels served afterwards). A replay therefore executes the case up to 40 times.
pub fn exec(c: &Case) -> Outcome {
    exec_once(c)
}

pub fn exec_replay(c: &Case) -> Outcome {
    let mut last = Outcome::pass();
    for _ in 0..40 {
        last = exec_once(c);
        if last.fail.is_some() {
            break;
        }
    }
    last
}

pub fn main(args: &Args) -> i32 {
    if let Some(p) = &args.replay {
        let (_, _, case) = vkit::load_replay(p);
        return vkit::replay_verdict("C01", p, &exec_replay(&serde_json::from_value(case).expect("case")));
    }
    let mut ev = Evidence::new("C01", args, "exploration");
    ev.assume("real threads: the schedule is perturbed (barrier-released bursts, mixed bodies), not owned; the queue-level interleavings are owned by C03/C04");
    ev.assume("'never executed / never finished' is decided after 3 s without any progress on a host that demonstrably runs a 1 ms sleeper on time, plus sentinels submitted afterwards to every loop; a saved case is replayed up to 40 times because the schedule is not owned");
    ev.nt_floor = 0.03;
    ev.add(vkit::run_regress("C01", |_s, case| {
        // a regression seed gets 5 executions (the defects they record showed in 7..100 % of runs)
        let c: Case = serde_json::from_value(case).expect("case");
        let mut last = Outcome::pass();
        for _ in 0..5 {
            last = exec_once(&c);
            if last.fail.is_some() {
                break;
            }
        }
        last
    }));
    if ev.has_violations() {
        return ev.finish();
    }
    let thorough = args.tier == vkit::Tier::Thorough;
    ev.add(vkit::run_prop(
        &RunCfg {
            property: "C01",
            sub: "runtime",
            rule: "fresh child per case: 1..4 event loops, max_size in {1,2,8,65536}, 1..6 ops out of burst (1..8 threads x 1..120 tasks, mixed bodies/priorities), single submit, sleep, cancel, release; non-trivial = >= 2 concurrent submitter threads and (more than 256 tasks or tasks ran on >= 2 loop threads)",
            seed: args.seed,
            cases: args.cases(600, 6_000),
            shards: 12,
            max_shrink_iters: 40,
        },
        move || strategy(thorough),
        exec,
    ));
    ev.finish()
}

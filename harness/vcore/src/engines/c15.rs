//! C15 — a coroutine blocked in a hooked call does not stall its event loop.
//!
//! Case (fresh child, one event loop, max_size >= number of tasks): 2..8 "blockers", each
//! inside one hooked wait of `d` in 60..300 ms (usleep, nanosleep, poll or select on an idle
//! descriptor, recv on an idle socket with SO_RCVTIMEO = d), optionally a ticker task (hooked
//! usleep(1 ms) in a loop), a computing task (1 ms of work, then yield, in a loop) and a
//! task blocked in a hooked recv that the harness feeds after `feed_ms`.
//! Oracle: every blocker is done by `start + max d + max(100 ms, max d / 2)` (not the sum of
//! the waits); while the blockers wait the ticker ticks at least once per 40 ms and the
//! computing task gets at least a quarter of the wall time; the fed recv returns within
//! 100 ms of the write with the byte written.
//! Sub-run `burst` (c15burst.rs): several hundred sleepers submitted at once must all sleep
//! together.

use libc::c_int;
use open_coroutine_core::common::now;
use open_coroutine_core::config::Config;
use open_coroutine_core::net::EventLoops;
use open_coroutine_core::scheduler::SchedulableSuspender;
use open_coroutine_core::syscall as hooked;
use proptest::prelude::*;
use serde::{Deserialize, Serialize};
use serde_json::json;
use std::sync::atomic::{AtomicBool, AtomicU64, Ordering};
use std::sync::Arc;
use std::time::{Duration, Instant};
use vkit::child::{self, ChildSpec, End};
use vkit::{Args, Evidence, Outcome, RunCfg};

#[derive(Debug, Clone, Copy, Serialize, Deserialize, PartialEq)]
pub enum Wait {
    Usleep,
    Nanosleep,
    Poll,
    Select,
    RecvTimeout,
}

#[derive(Debug, Clone, Serialize, Deserialize)]
pub struct Case {
    /// (kind, ms)
    pub blockers: Vec<(Wait, u16)>,
    pub ticker: bool,
    pub computer: bool,
    /// Some(ms): one more task blocks in hooked recv (no timeout) and is fed after ms
    pub feed_ms: Option<u16>,
    /// pool configuration of the event loop: keep-alive time of idle workers in ms,
    /// min_size, and max_size as "number of tasks + this" (0 = the default 65536)
    #[serde(default)]
    pub keep_alive_ms: u16,
    #[serde(default)]
    pub min_size: u8,
    #[serde(default)]
    pub max_extra: u8,
}

pub fn strategy() -> impl Strategy<Value = Case> {
    (
        proptest::collection::vec((prop_oneof![Just(Wait::Usleep), Just(Wait::Nanosleep), Just(Wait::Poll), Just(Wait::Select), Just(Wait::RecvTimeout)], 60u16..300), 2..9),
        any::<bool>(),
        any::<bool>(),
        proptest::option::weighted(0.5, 10u16..200),
        (prop_oneof![3 => Just(0u16), 1 => Just(5u16), 1 => 20u16..400, 1 => Just(3000u16)], 0u8..3, prop_oneof![2 => Just(0u8), 1 => 1u8..6]),
    )
        .prop_map(|(blockers, ticker, computer, feed_ms, (keep_alive_ms, min_size, max_extra))| Case { blockers, ticker, computer, feed_ms, keep_alive_ms, min_size, max_extra })
}

fn pair() -> (c_int, c_int) {
    let mut p = [0 as c_int; 2];
    unsafe {
        assert_eq!(0, libc::socketpair(libc::AF_UNIX, libc::SOCK_STREAM, 0, p.as_mut_ptr()));
    }
    (p[0], p[1])
}

fn do_wait(w: Wait, ms: u16, fd: c_int) {
    match w {
        Wait::Usleep => {
            let _ = hooked::usleep(None, u32::from(ms) * 1000);
        }
        Wait::Nanosleep => {
            let rq = libc::timespec { tv_sec: 0, tv_nsec: i64::from(ms) * 1_000_000 };
            let _ = hooked::nanosleep(None, &rq, std::ptr::null_mut());
        }
        Wait::Poll => {
            let mut f = libc::pollfd { fd, events: libc::POLLIN, revents: 0 };
            let _ = hooked::poll(None, &mut f, 1, c_int::from(ms));
        }
        Wait::Select => {
            let mut set: libc::fd_set = unsafe { std::mem::zeroed() };
            unsafe {
                libc::FD_ZERO(&mut set);
                libc::FD_SET(fd, &mut set);
            }
            let mut tv = libc::timeval { tv_sec: 0, tv_usec: i64::from(ms) * 1000 };
            let _ = hooked::select(None, fd + 1, &mut set, std::ptr::null_mut(), std::ptr::null_mut(), &mut tv);
        }
        Wait::RecvTimeout => {
            let tv = libc::timeval { tv_sec: 0, tv_usec: i64::from(ms) * 1000 };
            let _ = hooked::setsockopt(None, fd, libc::SOL_SOCKET, libc::SO_RCVTIMEO, std::ptr::from_ref(&tv).cast(), std::mem::size_of::<libc::timeval>() as libc::socklen_t);
            let mut b = [0u8; 1];
            let _ = hooked::recv(None, fd, b.as_mut_ptr().cast(), 1, 0);
        }
    }
}

pub fn child_main() -> i32 {
    let case: Case = serde_json::from_value(child::read_stdin_json()).expect("case");
    let mut cfg = Config::single();
    cfg.set_hook(false);
    cfg.set_keep_alive_time(u64::from(case.keep_alive_ms) * 1_000_000);
    cfg.set_min_size(usize::from(case.min_size));
    if case.max_extra > 0 {
        // room for every task of the case (blockers, ticker, computer, fed recv) plus spare workers
        cfg.set_max_size(case.blockers.len() + 3 + usize::from(case.max_extra));
    }
    EventLoops::init(&cfg);
    let n = case.blockers.len();
    let begun: Arc<Vec<AtomicU64>> = Arc::new((0..n).map(|_| AtomicU64::new(0)).collect());
    let ended: Arc<Vec<AtomicU64>> = Arc::new((0..n).map(|_| AtomicU64::new(0)).collect());
    let stop = Arc::new(AtomicBool::new(false));
    let ticks = Arc::new(AtomicU64::new(0));
    let work_ns = Arc::new(AtomicU64::new(0));
    let mut keep = vec![];
    let t0 = now();
    for (i, (w, ms)) in case.blockers.iter().copied().enumerate() {
        let (begun, ended) = (begun.clone(), ended.clone());
        let (fd, _peer) = pair();
        keep.push(EventLoops::submit_task(
            Some(format!("c15-blocker-{i}")),
            move |_| {
                begun[i].store(now(), Ordering::SeqCst);
                do_wait(w, ms, fd);
                ended[i].store(now(), Ordering::SeqCst);
                None
            },
            None,
            None,
        ));
    }
    if case.ticker {
        let (stop, ticks) = (stop.clone(), ticks.clone());
        keep.push(EventLoops::submit_task(
            Some("c15-ticker".into()),
            move |_| {
                while !stop.load(Ordering::SeqCst) {
                    let _ = hooked::usleep(None, 1000);
                    ticks.fetch_add(1, Ordering::SeqCst);
                }
                None
            },
            None,
            None,
        ));
    }
    if case.computer {
        let (stop, work_ns) = (stop.clone(), work_ns.clone());
        keep.push(EventLoops::submit_task(
            Some("c15-computer".into()),
            move |_| {
                while !stop.load(Ordering::SeqCst) {
                    let t = Instant::now();
                    let mut x = 1u64;
                    while t.elapsed() < Duration::from_millis(1) {
                        x = x.wrapping_mul(31).wrapping_add(7);
                        std::hint::black_box(x);
                    }
                    work_ns.fetch_add(t.elapsed().as_nanos() as u64, Ordering::SeqCst);
                    if let Some(s) = SchedulableSuspender::current() {
                        s.suspend();
                    }
                }
                None
            },
            None,
            None,
        ));
    }
    let fed_got = Arc::new(AtomicU64::new(0));
    let fed_at = Arc::new(AtomicU64::new(0));
    let mut wrote_at = 0u64;
    let feed = case.feed_ms.map(|ms| {
        let (fd, peer) = pair();
        let (fed_got, fed_at) = (fed_got.clone(), fed_at.clone());
        keep.push(EventLoops::submit_task(
            Some("c15-fed-recv".into()),
            move |_| {
                let mut b = [0u8; 1];
                let r = hooked::recv(None, fd, b.as_mut_ptr().cast(), 1, 0);
                fed_at.store(now(), Ordering::SeqCst);
                fed_got.store(if r == 1 { u64::from(b[0]) } else { 1000 + r.unsigned_abs() as u64 }, Ordering::SeqCst);
                None
            },
            None,
            None,
        ));
        (ms, peer)
    });
    let dmax = u64::from(case.blockers.iter().map(|b| b.1).max().unwrap_or(0));
    let limit = Duration::from_millis(dmax * n as u64 + 3000);
    let start = Instant::now();
    let mut fed = false;
    loop {
        if let Some((ms, peer)) = feed {
            if !fed && start.elapsed() >= Duration::from_millis(u64::from(ms)) {
                let x = [77u8];
                wrote_at = now();
                unsafe {
                    libc::send(peer, x.as_ptr().cast(), 1, libc::MSG_NOSIGNAL);
                }
                fed = true;
            }
        }
        let all = (0..n).all(|i| ended[i].load(Ordering::SeqCst) != 0);
        let fed_done = feed.is_none() || fed_at.load(Ordering::SeqCst) != 0;
        if (all && fed_done && (feed.is_none() || fed)) || start.elapsed() > limit {
            break;
        }
        std::thread::sleep(Duration::from_micros(500));
    }
    let ticks_during = ticks.load(Ordering::SeqCst);
    let work_during = work_ns.load(Ordering::SeqCst);
    let t_all = now();
    stop.store(true, Ordering::SeqCst);
    let b: Vec<serde_json::Value> = (0..n).map(|i| json!({"begun":begun[i].load(Ordering::SeqCst).to_string(),"ended":ended[i].load(Ordering::SeqCst).to_string()})).collect();
    child::emit(json!({"ev":"result","t0":t0.to_string(),"t_all":t_all.to_string(),"blockers":b,"ticks":ticks_during,"work_ns":work_during,
        "fed_got":fed_got.load(Ordering::SeqCst),"fed_at":fed_at.load(Ordering::SeqCst).to_string(),"wrote_at":wrote_at.to_string(),"host_calm":vkit::timing::host_calm()}));
    let _ = keep;
    unsafe { libc::_exit(0) }
}

fn u(v: &serde_json::Value) -> u64 {
    v.as_str().and_then(|s| s.parse().ok()).unwrap_or(0)
}

pub fn exec_once(c: &Case) -> Outcome {
    let js = serde_json::to_string(c).unwrap();
    let n = c.blockers.len() as u64;
    let dmax = u64::from(c.blockers.iter().map(|b| b.1).max().unwrap_or(0));
    let r = child::run_child(&ChildSpec { args: vec!["C15child".into()], stdin: &js, timeout: Duration::from_millis(dmax * n + 15_000), env: vec![] });
    let mut o = Outcome::pass();
    o.nontrivial = n >= 3;
    o = o.class_if(n >= 3, "3+blockers").class_if(c.ticker, "ticker").class_if(c.computer, "computing-sibling").class_if(c.feed_ms.is_some(), "fed-recv").class_if(c.keep_alive_ms > 0, "keep-alive>0").class_if(c.min_size > 0, "min_size>0").class_if(c.max_extra > 0, "bounded-max_size");
    match &r.end {
        End::Exit(0) => {}
        End::Signal(sig) => {
            o.set_fail(format!("C15/process-killed-by-signal-{sig}"), format!("the process died; {}", r.stderr_tail.lines().rev().take(2).collect::<Vec<_>>().join(" | ")));
            return o;
        }
        End::Deadline { .. } => {
            o.set_fail("C15/blockers-never-finished", "the child did not finish within the sum of all waits + 15 s");
            return o;
        }
        End::Exit(_) => {
            o.excluded = Some("child-exited-nonzero");
            return o;
        }
    }
    let Some(res) = r.result() else {
        o.excluded = Some("child-gave-no-result");
        return o;
    };
    if res["host_calm"].as_bool() == Some(false) {
        o.excluded = Some("host-not-responsive");
        return o;
    }
    let t0 = u(&res["t0"]);
    let bound = dmax * 1_000_000 + (100_000_000u64).max(dmax * 1_000_000 / 2);
    let mut last_end = 0u64;
    for (i, b) in res["blockers"].as_array().cloned().unwrap_or_default().iter().enumerate() {
        let e = u(&b["ended"]);
        if e == 0 {
            o.set_fail("C15/blockers-serialised", format!("blocker {i} {:?} had not finished when the harness gave up ({} blockers, longest wait {dmax} ms)", c.blockers[i], n));
            return o;
        }
        last_end = last_end.max(e);
    }
    if last_end - t0 > bound {
        o.set_fail(
            "C15/blockers-serialised",
            format!("{n} tasks each inside one hooked wait (longest {dmax} ms, sum {} ms) were all done only after {} ms (bound {} ms)", c.blockers.iter().map(|b| u64::from(b.1)).sum::<u64>(), (last_end - t0) / 1_000_000, bound / 1_000_000),
        );
        return o;
    }
    let window_ms = (last_end - t0) / 1_000_000;
    if c.ticker {
        let ticks = res["ticks"].as_u64().unwrap_or(0);
        if ticks < window_ms / 40 {
            o.set_fail("C15/ticker-starved", format!("a task looping over hooked usleep(1 ms) ticked {ticks} times in {window_ms} ms while {n} siblings were inside hooked waits"));
            return o;
        }
    }
    if c.computer {
        let w = res["work_ns"].as_u64().unwrap_or(0) / 1_000_000;
        if w < window_ms / 4 / if c.ticker { 2 } else { 1 } {
            o.set_fail("C15/computing-sibling-starved", format!("a computing task (1 ms of work, then yield) got {w} ms of work in {window_ms} ms while {n} siblings were inside hooked waits"));
            return o;
        }
    }
    if c.feed_ms.is_some() {
        let got = res["fed_got"].as_u64().unwrap_or(0);
        let (at, wrote) = (u(&res["fed_at"]), u(&res["wrote_at"]));
        if at == 0 || got != 77 {
            o.set_fail("C15/fed-recv-did-not-return-the-byte", format!("the task blocked in hooked recv reported {got} (0 = never returned)"));
            return o;
        }
        if at < wrote {
            o.set_fail("C15/fed-recv-returned-before-the-write", "recv returned before anything was written".to_string());
            return o;
        }
        if at - wrote > 100_000_000 {
            o.set_fail("C15/fed-recv-late", format!("hooked recv returned {} ms after the byte was written", (at - wrote) / 1_000_000));
            return o;
        }
    }
    o
}

pub fn exec(c: &Case) -> Outcome {
    vkit::timing::confirm_repeat(exec_once(c), |s| !s.contains("process-killed") && !s.contains("before-the-write"), || exec_once(c), 2)
}

pub fn main(args: &Args) -> i32 {
    if let Some(p) = &args.replay {
        let (_, sub, case) = vkit::load_replay(p);
        if sub == "burst" {
            return vkit::replay_verdict("C15", p, &super::c15burst::exec(&serde_json::from_value(case).expect("case")));
        }
        return vkit::replay_verdict("C15", p, &exec(&serde_json::from_value(case).expect("case")));
    }
    let mut ev = Evidence::new("C15", args, "exploration");
    ev.assume("one event loop; keep-alive time 0..3 s, min_size 0..2, max_size default or tasks + 1..5; calls enter through open_coroutine_core::syscall::* (the interposed libc symbols forward there)");
    ev.assume("timing bounds: all blockers done by longest wait + max(100 ms, half of it); ticker >= 1 tick per 40 ms; computing sibling >= 1/4 of the wall time (1/8 next to a ticker); every deviation confirmed by 2 re-executions on a responsive host");
    ev.add(vkit::run_regress("C15", |s, case| if s == "burst" { super::c15burst::exec(&serde_json::from_value(case).expect("case")) } else { exec(&serde_json::from_value(case).expect("case")) }));
    if ev.has_violations() {
        return ev.finish();
    }
    ev.add(vkit::run_prop(
        &RunCfg {
            property: "C15",
            sub: "blocked-siblings",
            rule: "fresh child per case: 2..8 tasks each inside one hooked wait of 60..300 ms (usleep/nanosleep/poll/select/recv with SO_RCVTIMEO), optional ticker, computing sibling and fed recv, generated pool configuration (keep-alive, min_size, max_size); non-trivial = >= 3 blockers",
            seed: args.seed,
            cases: args.cases(600, 6_000),
            shards: 8,
            max_shrink_iters: 40,
        },
        strategy,
        exec,
    ));
    ev.add(vkit::run_prop(
        &RunCfg {
            property: "C15",
            sub: "burst",
            rule: "fresh child per case: one event loop, default worker limit; while a gate task computes on the loop thread 200..899 tasks are submitted (at once or spread over <= 40 ms), each making one hooked sleep (usleep | nanosleep) of 2.5 s; then the gate opens; non-trivial = the burst is larger than the local task queue (256)",
            seed: args.seed,
            cases: args.cases(10, 80),
            shards: 5,
            max_shrink_iters: 6,
        },
        super::c15burst::strategy,
        super::c15burst::exec,
    ));
    ev.finish()
}

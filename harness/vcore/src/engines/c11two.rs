//! C11, sub-run `two-pools`: two `CoroutinePool`s driven by one thread. All pools of a thread
//! share one coroutine queue, so the scheduler of one pool can steal a worker coroutine the
//! other pool created (between the event loops of a program the same happens across
//! threads). A worker serves, and is counted in, the pool that runs it.
//!
//! Oracle: after every driver step each pool reports at most its own maximum; after every
//! pass that ran dry the two reported sizes add up to the number of worker coroutines alive
//! (drop-counting token, see c11.rs); once every task is finished or cancelled, each pool's
//! `stop` returns promptly with `Ok` and both report 0.

use super::c11::Body;
use open_coroutine_core::co_pool::CoroutinePool;
use open_coroutine_core::common::constants::CoroutineState;
use open_coroutine_core::coroutine::listener::Listener;
use open_coroutine_core::coroutine::local::CoroutineLocal;
use open_coroutine_core::scheduler::{SchedulableCoroutineState, SchedulableSuspender};
use proptest::prelude::*;
use serde::{Deserialize, Serialize};
use serde_json::json;
use std::sync::atomic::{AtomicBool, AtomicU32, AtomicUsize, Ordering};
use std::sync::Arc;
use std::time::{Duration, Instant};
use vkit::child::{self, ChildSpec, End};
use vkit::{pick, Outcome};

#[derive(Debug, Clone, Copy, Serialize, Deserialize, PartialEq)]
pub enum Op {
    Submit { second: bool, body: Body },
    Pass { second: bool, ms: u8 },
    Sleep(u8),
    Cancel(u16),
}

#[derive(Debug, Clone, Serialize, Deserialize)]
pub struct Case {
    pub max: [u8; 2],
    /// 0 = none, 1 = 5 ms, 2 = 20 ms
    pub keep_alive: u8,
    pub ops: Vec<Op>,
}

fn body() -> impl Strategy<Value = Body> {
    prop_oneof![
        3 => Just(Body::Return),
        1 => Just(Body::Panic),
        4 => (1u8..40).prop_map(Body::Delay),
        4 => Just(Body::Suspend),
        1 => (1u8..20).prop_map(Body::DelayThenPanic),
    ]
}

pub fn strategy() -> impl Strategy<Value = Case> {
    let op = prop_oneof![
        6 => (any::<bool>(), body()).prop_map(|(second, body)| Op::Submit { second, body }),
        6 => (any::<bool>(), 1u8..15).prop_map(|(second, ms)| Op::Pass { second, ms }),
        2 => (0u8..12).prop_map(Op::Sleep),
        2 => any::<u16>().prop_map(Op::Cancel),
    ];
    (prop_oneof![2 => Just(1u8), 2 => 2u8..=3, 1 => 4u8..=6], prop_oneof![2 => Just(1u8), 2 => 2u8..=3, 1 => 4u8..=6], 0u8..3, proptest::collection::vec(op, 2..28)).prop_map(|(a, b, keep_alive, ops)| Case { max: [a, b], keep_alive, ops })
}

struct AliveTok(Arc<AtomicUsize>);
impl Drop for AliveTok {
    fn drop(&mut self) {
        self.0.fetch_add(1, Ordering::SeqCst);
    }
}

#[derive(Debug)]
struct Tagger {
    created: Arc<AtomicUsize>,
    dropped: Arc<AtomicUsize>,
}

impl Listener<(), Option<usize>> for Tagger {
    fn on_state_changed(&self, local: &CoroutineLocal, old: SchedulableCoroutineState, new: SchedulableCoroutineState) {
        if old == CoroutineState::Ready && new == CoroutineState::Running && local.get::<AliveTok>("c11-alive").is_none() {
            self.created.fetch_add(1, Ordering::SeqCst);
            let _ = local.put("c11-alive", AliveTok(self.dropped.clone()));
        }
    }
}

const CLASSES: [&str; 4] = ["both-pools-used", "a-pool-reached-its-maximum", "suspended-work-left-for-the-other-pools-pass", "cancel"];

pub fn exec(c: &Case) -> Outcome {
    let keep = match c.keep_alive {
        0 => 0u64,
        1 => 5_000_000,
        _ => 20_000_000,
    };
    let max = [usize::from(c.max[0].max(1)), usize::from(c.max[1].max(1))];
    let created = Arc::new(AtomicUsize::new(0));
    let dropped = Arc::new(AtomicUsize::new(0));
    let mut pools: Vec<&'static mut CoroutinePool<'static>> = vec![];
    for (i, m) in max.iter().enumerate() {
        let p: &'static mut CoroutinePool<'static> = Box::leak(Box::new(CoroutinePool::new(format!("c11two-{i}"), 64 * 1024, 0, *m, keep)));
        p.add_listener(Tagger { created: created.clone(), dropped: dropped.clone() });
        pools.push(p);
    }
    struct T {
        id: u64,
        ran: Arc<AtomicU32>,
        done: Arc<AtomicBool>,
        cancelled: bool,
    }
    let mut tasks: Vec<T> = vec![];
    let mut o = Outcome::pass();
    let alive = |created: &AtomicUsize, dropped: &AtomicUsize| created.load(Ordering::SeqCst) - dropped.load(Ordering::SeqCst);
    let (mut used, mut max_reached, mut crossing, mut cancels) = ([false; 2], false, 0u32, 0u32);
    for (k, op) in c.ops.iter().enumerate() {
        if o.fail.is_some() {
            break;
        }
        child::emit(json!({"ev":"start","k":k}));
        match *op {
            Op::Submit { second, body: b } => {
                let pi = usize::from(second);
                used[pi] = true;
                let ran = Arc::new(AtomicU32::new(0));
                let done = Arc::new(AtomicBool::new(false));
                let (r2, d2) = (ran.clone(), done.clone());
                let n = tasks.len();
                let res = pools[pi].submit_task(
                    Some(format!("c11two-t{n}")),
                    move |_| {
                        r2.fetch_add(1, Ordering::SeqCst);
                        match b {
                            Body::Return => {}
                            Body::Panic => {
                                d2.store(true, Ordering::SeqCst);
                                panic!("c11 task panic");
                            }
                            Body::Delay(ms) => {
                                if let Some(s) = SchedulableSuspender::current() {
                                    s.delay(Duration::from_millis(u64::from(ms)));
                                }
                            }
                            Body::Suspend => {
                                // gives the pass of the *other* pool a chance to pick this worker up
                                for _ in 0..3 {
                                    if let Some(s) = SchedulableSuspender::current() {
                                        s.suspend();
                                    }
                                }
                            }
                            Body::DelayThenPanic(ms) => {
                                if let Some(s) = SchedulableSuspender::current() {
                                    s.delay(Duration::from_millis(u64::from(ms)));
                                }
                                d2.store(true, Ordering::SeqCst);
                                panic!("c11 task panic after delay");
                            }
                        }
                        d2.store(true, Ordering::SeqCst);
                        Some(n)
                    },
                    None,
                    None,
                );
                match res {
                    Ok(id) => tasks.push(T { id, ran, done, cancelled: false }),
                    Err(e) => o.set_fail("C11/two-pools/submit-rejected-while-running", format!("op {k}: {e}")),
                }
            }
            Op::Pass { second, ms } => {
                let pi = usize::from(second);
                let pending_before = tasks.iter().filter(|t| !t.cancelled && t.ran.load(Ordering::SeqCst) > 0 && !t.done.load(Ordering::SeqCst)).count();
                if pending_before > 0 {
                    crossing += 1;
                }
                let left = pools[pi].try_timed_schedule_task(Duration::from_millis(u64::from(ms))).unwrap_or(0);
                let sizes = [pools[0].get_running_size(), pools[1].get_running_size()];
                if sizes[0] >= max[0] || sizes[1] >= max[1] {
                    max_reached = true;
                }
                if left > 0 {
                    let a = alive(&created, &dropped);
                    if sizes[0] + sizes[1] != a {
                        o.set_fail(
                            "C11/two-pools/running-sizes-do-not-add-up-to-live-workers",
                            format!("op {k}: after a pass of pool {pi} that ran dry the pools report {sizes:?} running workers but {a} worker coroutine(s) are alive ({} started, {} dropped)", created.load(Ordering::SeqCst), dropped.load(Ordering::SeqCst)),
                        );
                    }
                }
            }
            Op::Sleep(ms) => std::thread::sleep(Duration::from_millis(u64::from(ms))),
            Op::Cancel(ix) => {
                if tasks.is_empty() {
                    continue;
                }
                let i = pick(ix, tasks.len());
                if tasks[i].cancelled || tasks[i].done.load(Ordering::SeqCst) {
                    continue;
                }
                CoroutinePool::try_cancel_task(tasks[i].id);
                tasks[i].cancelled = true;
                cancels += 1;
            }
        }
        for pi in 0..2 {
            let r = pools[pi].get_running_size();
            if r > max[pi] {
                o.set_fail("C11/two-pools/running-size-exceeds-max", format!("op {k}: pool {pi} reports {r} running workers, its max_size is {}", max[pi]));
            }
        }
        child::emit(json!({"ev":"done","k":k}));
    }
    child::emit(json!({"ev":"start","k":"epilogue"}));
    if o.fail.is_none() {
        let deadline = Instant::now() + Duration::from_secs(4);
        loop {
            for p in pools.iter_mut() {
                let _ = p.try_timed_schedule_task(Duration::from_millis(3));
            }
            let all = tasks.iter().all(|t| t.cancelled || t.done.load(Ordering::SeqCst));
            if all || Instant::now() > deadline {
                break;
            }
            std::thread::sleep(Duration::from_millis(1));
        }
        // cancelled-while-suspended tasks and idle workers (keep-alive <= 20 ms) go within 60 ms
        let settle = Instant::now() + Duration::from_millis(60);
        while Instant::now() < settle {
            for p in pools.iter_mut() {
                let _ = p.try_timed_schedule_task(Duration::from_millis(3));
            }
            std::thread::sleep(Duration::from_millis(1));
        }
        let missing: Vec<usize> = tasks.iter().enumerate().filter(|(_, t)| !(t.cancelled || t.done.load(Ordering::SeqCst))).map(|x| x.0).collect();
        if !missing.is_empty() {
            o.set_fail("C11/two-pools/tasks-never-finished", format!("tasks {missing:?} neither finished nor were cancelled although both pools kept being scheduled"));
        } else {
            // stop the pools in turn; the one stopped first may have to take back (or finish
            // off) workers the other one holds, so both are given passes while either waits
            for pi in 0..2 {
                let t = Instant::now();
                let mut r = pools[pi].stop(Duration::from_millis(300));
                let mut rounds = 0;
                while r.is_err() && rounds < 8 {
                    let _ = pools[1 - pi].try_timed_schedule_task(Duration::from_millis(5));
                    r = pools[pi].stop(Duration::from_millis(300));
                    rounds += 1;
                }
                let el = t.elapsed();
                let sizes = [pools[0].get_running_size(), pools[1].get_running_size()];
                if r.is_err() || sizes[pi] != 0 {
                    o.set_fail(
                        "C11/two-pools/running-size-not-zero-after-all-work-done",
                        format!(
                            "all {} tasks finished or were cancelled; stop of pool {pi} -> {r:?} after {el:?} ({rounds} extra rounds with passes of the other pool); the pools report {sizes:?} running workers, {} worker coroutine(s) alive",
                            tasks.len(),
                            alive(&created, &dropped)
                        ),
                    );
                    break;
                }
            }
        }
    }
    o.nontrivial = used[0] && used[1] && crossing >= 1;
    o.class_if(used[0] && used[1], CLASSES[0]).class_if(max_reached, CLASSES[1]).class_if(crossing >= 1, CLASSES[2]).class_if(cancels >= 1, CLASSES[3])
}

pub fn child_main() -> i32 {
    std::panic::set_hook(Box::new(|_| {}));
    let case: Case = serde_json::from_value(child::read_stdin_json()).expect("case");
    let o = match std::panic::catch_unwind(std::panic::AssertUnwindSafe(|| exec(&case))) {
        Ok(o) => o,
        Err(e) => {
            let m = e.downcast_ref::<&'static str>().map(|s| (*s).to_string()).or_else(|| e.downcast_ref::<String>().cloned()).unwrap_or_else(|| "non-string panic".into());
            Outcome::fail("C11/two-pools/harness-or-code-panic", format!("panic while executing case: {m}"))
        }
    };
    child::emit(json!({"ev": "result", "fail": o.fail.as_ref().map(|(s, m)| json!([s, m])), "nontrivial": o.nontrivial, "classes": o.classes}));
    std::process::exit(0)
}

pub fn exec_isolated(c: &Case) -> Outcome {
    let js = serde_json::to_string(c).unwrap();
    let limit = Duration::from_secs(25);
    let r = child::run_child(&ChildSpec { args: vec!["C11twochild".into()], stdin: &js, timeout: limit, env: vec![] });
    let at = || r.open_op().map(|v| v["k"].clone());
    let mut o = Outcome::pass();
    match (&r.end, r.result()) {
        (End::Exit(0), Some(res)) => {
            if let Some(f) = res["fail"].as_array() {
                o.set_fail(f[0].as_str().unwrap_or("?"), f[1].as_str().unwrap_or("?"));
            }
            o.nontrivial = res["nontrivial"].as_bool().unwrap_or(false);
            for cl in res["classes"].as_array().into_iter().flatten() {
                if let Some(k) = CLASSES.iter().find(|k| Some(**k) == cl.as_str()) {
                    o.classes.push(k);
                }
            }
        }
        (End::Deadline { cpu_busy }, _) => o.set_fail("C11/two-pools/call-did-not-return", format!("the history was still executing after {limit:?} (cpu busy: {cpu_busy}); step in progress: {:?}", at())),
        (End::Signal(sig), _) => o.set_fail(
            "C11/two-pools/process-aborted-while-executing-this-case",
            format!("the process was killed by signal {sig} during step {:?}; stderr tail: {}", at(), r.stderr_tail.lines().rev().take(3).collect::<Vec<_>>().join(" | ")),
        ),
        _ => o.excluded = Some("child-ended-without-a-verdict"),
    }
    o
}

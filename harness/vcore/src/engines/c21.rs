//! C21 — OS readiness interest matches outstanding waits.
//!
//! Case: a history over 3 socketpair slots on one event loop of
//! {WaitRead, WaitWrite, DelRead, DelWrite, DelBoth, Shutdown(how), Close, Reopen}, issued
//! from a plain thread through the runtime's own entry points. Fresh child per history.
//! Oracle: after every op, for every descriptor, the EPOLLIN / EPOLLOUT bits the kernel
//! shows for it in /proc/self/fdinfo/<epoll fd> equal the model's outstanding set (no entry
//! <=> empty set); after close + reopen of a descriptor number the first wait registers.

use libc::c_int;
use open_coroutine_core::config::Config;
use open_coroutine_core::net::EventLoops;
use open_coroutine_core::syscall as hooked;
use proptest::prelude::*;
use serde::{Deserialize, Serialize};
use serde_json::json;
use std::collections::BTreeMap;
use std::time::Duration;
use vkit::child::{self, ChildSpec, End};
use vkit::{Args, Evidence, Outcome, RunCfg};

#[derive(Debug, Clone, Copy, Serialize, Deserialize, PartialEq)]
pub enum Op {
    WaitRead { s: u8 },
    WaitWrite { s: u8 },
    DelRead { s: u8 },
    DelWrite { s: u8 },
    DelBoth { s: u8 },
    /// 0 = SHUT_RD, 1 = SHUT_WR, 2 = SHUT_RDWR
    Shutdown { s: u8, how: u8 },
    Close { s: u8 },
    Reopen { s: u8 },
}

#[derive(Debug, Clone, Serialize, Deserialize)]
pub struct Case {
    pub loops: u8,
    pub ops: Vec<Op>,
}

pub fn strategy(max_loops: u8) -> impl Strategy<Value = Case> {
    (
        1u8..=max_loops,
        proptest::collection::vec(
            prop_oneof![
                5 => (0u8..3).prop_map(|s| Op::WaitRead { s }),
                5 => (0u8..3).prop_map(|s| Op::WaitWrite { s }),
                3 => (0u8..3).prop_map(|s| Op::DelRead { s }),
                3 => (0u8..3).prop_map(|s| Op::DelWrite { s }),
                2 => (0u8..3).prop_map(|s| Op::DelBoth { s }),
                2 => (0u8..3, 0u8..3).prop_map(|(s, how)| Op::Shutdown { s, how }),
                2 => (0u8..3).prop_map(|s| Op::Close { s }),
                2 => (0u8..3).prop_map(|s| Op::Reopen { s }),
            ],
            1..16,
        ),
    )
        .prop_map(|(loops, ops)| Case { loops, ops })
}

fn epoll_fds() -> Vec<c_int> {
    let mut v = vec![];
    if let Ok(rd) = std::fs::read_dir("/proc/self/fd") {
        for e in rd.flatten() {
            if let Ok(t) = std::fs::read_link(e.path()) {
                if t.to_string_lossy() == "anon_inode:[eventpoll]" {
                    if let Ok(n) = e.file_name().to_string_lossy().parse::<c_int>() {
                        v.push(n);
                    }
                }
            }
        }
    }
    v.sort_unstable();
    v
}

/// fd -> union of event masks over all epoll instances of the process
fn registered() -> BTreeMap<c_int, u32> {
    let mut m = BTreeMap::new();
    for ep in epoll_fds() {
        if let Ok(s) = std::fs::read_to_string(format!("/proc/self/fdinfo/{ep}")) {
            for l in s.lines() {
                // tfd:        5 events: 80002019 data: ...
                if let Some(rest) = l.strip_prefix("tfd:") {
                    let mut it = rest.split_whitespace();
                    let fd = it.next().and_then(|x| x.parse::<c_int>().ok());
                    let _ = it.next();
                    let ev = it.next().and_then(|x| u32::from_str_radix(x, 16).ok());
                    if let (Some(fd), Some(ev)) = (fd, ev) {
                        *m.entry(fd).or_insert(0) |= ev;
                    }
                }
            }
        }
    }
    m
}

pub fn child_main() -> i32 {
    let case: Case = serde_json::from_value(child::read_stdin_json()).expect("case");
    let mut cfg = Config::single();
    cfg.set_hook(false);
    cfg.set_event_loop_size(case.loops.max(1) as usize);
    EventLoops::init(&cfg);
    let mut slots: [Option<(c_int, c_int)>; 3] = [None; 3];
    let open = |slots: &mut [Option<(c_int, c_int)>; 3], s: usize| {
        let mut p = [0 as c_int; 2];
        unsafe {
            assert_eq!(0, libc::socketpair(libc::AF_UNIX, libc::SOCK_STREAM, 0, p.as_mut_ptr()));
        }
        slots[s] = Some((p[0], p[1]));
    };
    for s in 0..3 {
        open(&mut slots, s);
    }
    // model: fd -> (read interest, write interest)
    let mut model: BTreeMap<c_int, (bool, bool)> = BTreeMap::new();
    let mut both_then_removed_one = false;
    let mut reused = false;
    let mut closed_numbers: Vec<c_int> = vec![];
    let w = Some(Duration::from_millis(1));
    for (k, op) in case.ops.iter().enumerate() {
        child::emit(json!({"ev":"start","k":k}));
        let mut note = String::new();
        match *op {
            Op::WaitRead { s } => {
                if let Some((fd, _)) = slots[s as usize % 3] {
                    let r = EventLoops::wait_read_event(fd, w);
                    if r.is_ok() {
                        model.entry(fd).or_default().0 = true;
                    } else {
                        note = format!("wait_read_event: {r:?}");
                    }
                }
            }
            Op::WaitWrite { s } => {
                if let Some((fd, _)) = slots[s as usize % 3] {
                    let r = EventLoops::wait_write_event(fd, w);
                    if r.is_ok() {
                        model.entry(fd).or_default().1 = true;
                    } else {
                        note = format!("wait_write_event: {r:?}");
                    }
                }
            }
            Op::DelRead { s } => {
                if let Some((fd, _)) = slots[s as usize % 3] {
                    let e = model.entry(fd).or_default();
                    if e.0 && e.1 {
                        both_then_removed_one = true;
                    }
                    let r = EventLoops::del_read_event(fd);
                    if r.is_ok() {
                        e.0 = false;
                    } else {
                        note = format!("del_read_event: {r:?}");
                    }
                }
            }
            Op::DelWrite { s } => {
                if let Some((fd, _)) = slots[s as usize % 3] {
                    let e = model.entry(fd).or_default();
                    if e.0 && e.1 {
                        both_then_removed_one = true;
                    }
                    let r = EventLoops::del_write_event(fd);
                    if r.is_ok() {
                        e.1 = false;
                    } else {
                        note = format!("del_write_event: {r:?}");
                    }
                }
            }
            Op::DelBoth { s } => {
                if let Some((fd, _)) = slots[s as usize % 3] {
                    let r = EventLoops::del_event(fd);
                    if r.is_ok() {
                        *model.entry(fd).or_default() = (false, false);
                    } else {
                        note = format!("del_event: {r:?}");
                    }
                }
            }
            Op::Shutdown { s, how } => {
                if let Some((fd, _)) = slots[s as usize % 3] {
                    let how_c = [libc::SHUT_RD, libc::SHUT_WR, libc::SHUT_RDWR][how as usize % 3];
                    let e = model.entry(fd).or_default();
                    if e.0 && e.1 && how % 3 != 2 {
                        both_then_removed_one = true;
                    }
                    let _ = hooked::shutdown(None, fd, how_c);
                    match how % 3 {
                        0 => e.0 = false,
                        1 => e.1 = false,
                        _ => *e = (false, false),
                    }
                }
            }
            Op::Close { s } => {
                if let Some((fd, peer)) = slots[s as usize % 3].take() {
                    let _ = hooked::close(None, fd);
                    let _ = hooked::close(None, peer);
                    model.remove(&fd);
                    model.remove(&peer);
                    closed_numbers.push(fd);
                    closed_numbers.push(peer);
                }
            }
            Op::Reopen { s } => {
                if slots[s as usize % 3].is_none() {
                    open(&mut slots, s as usize % 3);
                    let (a, _) = slots[s as usize % 3].unwrap();
                    if closed_numbers.contains(&a) {
                        reused = true;
                    }
                }
            }
        }
        // compare kernel view with the model for every live descriptor
        let reg = registered();
        let mut bad = vec![];
        for (fd, _) in slots.iter().flatten() {
            let (mr, mw) = model.get(fd).copied().unwrap_or((false, false));
            let ev = reg.get(fd).copied();
            let (kr, kw) = ev.map_or((false, false), |e| (e & 0x1 != 0, e & 0x4 != 0));
            if (mr, mw) != (kr, kw) {
                bad.push(json!({"fd":fd,"model":[mr,mw],"kernel":[kr,kw],"mask":ev.map(|e| format!("{e:#x}"))}));
            } else if !(mr || mw) && ev.is_some() && ev != Some(0) {
                // registered with some other bits only: still counts as "no read/write interest"
            }
        }
        child::emit(json!({"ev":"done","k":k,"bad":bad,"note":note}));
    }
    child::emit(json!({"ev":"result","both_then_removed_one":both_then_removed_one,"reused":reused,"epolls":epoll_fds().len()}));
    0
}

pub fn exec(c: &Case) -> Outcome {
    let js = serde_json::to_string(c).unwrap();
    let r = child::run_child(&ChildSpec { args: vec!["C21child".into()], stdin: &js, timeout: Duration::from_secs(20), env: vec![] });
    let mut o = Outcome::pass();
    match &r.end {
        End::Exit(0) => {}
        End::Signal(sig) => {
            if let Some(k) = r.open_op().and_then(|v| v["k"].as_u64()) {
                o.set_fail(
                    "C21/process-killed-while-changing-interest",
                    format!("child killed by signal {sig} during op #{k} {:?}; {}", c.ops.get(k as usize), r.stderr_tail.lines().rev().take(2).collect::<Vec<_>>().join(" | ")),
                );
            } else {
                o.excluded = Some("child-died-outside-any-op");
            }
            return o;
        }
        End::Deadline { .. } => {
            o.set_fail("C21/call-did-not-return", format!("open op {:?}", r.open_op()));
            return o;
        }
        End::Exit(_) => {
            o.excluded = Some("child-exited-nonzero");
            return o;
        }
    }
    if let Some(res) = r.result() {
        let a = res["both_then_removed_one"].as_bool().unwrap_or(false);
        let b = res["reused"].as_bool().unwrap_or(false);
        o.nontrivial = a || b;
        o = o.class_if(a, "both-interests-then-one-removed").class_if(b, "descriptor-number-reused").class_if(c.loops > 1, "2+event-loops");
    }
    for l in r.find("done") {
        if let Some(b) = l["bad"].as_array().and_then(|b| b.first()) {
            let k = l["k"].as_u64().unwrap_or(0) as usize;
            let kind = match (b["model"][0].as_bool(), b["model"][1].as_bool(), b["kernel"][0].as_bool(), b["kernel"][1].as_bool()) {
                (Some(mr), Some(mw), Some(kr), Some(kw)) => {
                    if (kr && !mr) || (kw && !mw) {
                        "stale-interest-left-registered"
                    } else if (!kr && mr) || (!kw && mw) {
                        "outstanding-interest-not-registered"
                    } else {
                        "mismatch"
                    }
                }
                _ => "mismatch",
            };
            o.set_fail(
                format!("C21/{kind}"),
                format!("after op #{k} {:?}: descriptor {} model [read,write]={} kernel={} (epoll mask {})", c.ops[k], b["fd"], b["model"], b["kernel"], b["mask"]),
            );
            return o;
        }
    }
    o
}

pub fn main(args: &Args) -> i32 {
    if let Some(p) = &args.replay {
        let (_, _, case) = vkit::load_replay(p);
        return vkit::replay_verdict("C21", p, &exec(&serde_json::from_value(case).expect("case")));
    }
    let mut ev = Evidence::new("C21", args, "exploration");
    ev.assume("an interest is outstanding from the wait that registered it until it is removed through del_*/shutdown/close (the runtime never removes it by itself); the kernel's /proc/self/fdinfo of the epoll descriptor is ground truth");
    ev.assume("one event loop (the interest records are process-wide; several loops are explored in the thorough tier only)");
    ev.add(vkit::run_regress("C21", |_s, case| exec(&serde_json::from_value(case).expect("case"))));
    if ev.has_violations() {
        return ev.finish();
    }
    let loops = 1;
    ev.add(vkit::run_prop(
        &RunCfg {
            property: "C21",
            sub: "interest",
            rule: "histories of 1..15 ops over 3 socketpairs: wait read/write (1 ms), remove read/write/both, shutdown(RD|WR|RDWR), close, reopen; non-trivial = a descriptor had both interests and one was removed, or a closed descriptor number was reused",
            seed: args.seed,
            cases: args.cases(300, 8_000),
            shards: 8,
            max_shrink_iters: 500,
        },
        move || strategy(loops),
        exec,
    ));
    ev.finish()
}

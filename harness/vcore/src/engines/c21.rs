//! C21 — OS readiness interest matches outstanding waits.
//!
//! Case: a history over 3 socketpair slots on one event loop of
//! {WaitRead, WaitWrite, DelRead, DelWrite, DelBoth, Shutdown(how), Close, Reopen}, issued
//! from a plain thread through the runtime's own entry points. Fresh child per history.
//! Oracle: after every op, for every descriptor, the EPOLLIN / EPOLLOUT bits the kernel
//! shows for it in /proc/self/fdinfo/<epoll fd> equal the model's outstanding set (no entry
//! <=> empty set); after close + reopen of a descriptor number the first wait registers.

use libc::c_int;
use open_coroutine_core::config::Config;
use open_coroutine_core::net::EventLoops;
use open_coroutine_core::syscall as hooked;
use proptest::prelude::*;
use serde::{Deserialize, Serialize};
use serde_json::json;
use std::collections::BTreeMap;
use std::time::Duration;
use vkit::child::{self, ChildSpec, End};
use vkit::{Args, Evidence, Outcome, RunCfg};

#[derive(Debug, Clone, Copy, Serialize, Deserialize, PartialEq)]
pub enum Op {
    WaitRead { s: u8 },
    WaitWrite { s: u8 },
    DelRead { s: u8 },
    DelWrite { s: u8 },
    DelBoth { s: u8 },
    /// 0 = SHUT_RD, 1 = SHUT_WR, 2 = SHUT_RDWR
    Shutdown { s: u8, how: u8 },
    Close { s: u8 },
    Reopen { s: u8 },
    /// the peer writes one byte, so the descriptor becomes readable and a registered read
    /// interest fires (the event loop delivers the readiness event); the model is unchanged:
    /// a delivered event does not remove the interest
    PeerWrite { s: u8 },
    /// read whatever is pending on the descriptor (non-blocking, plain libc)
    Drain { s: u8 },
}

#[derive(Debug, Clone, Serialize, Deserialize)]
pub struct Case {
    pub loops: u8,
    pub ops: Vec<Op>,
    /// who issues op k: 0 = the driver (a plain thread), 1 / 2 = one of two long-lived tasks
    /// running on the event loops (missing entries = 0). With one loop all three reach the
    /// same selector; with two loops the tasks normally sit on different loops and a plain
    /// thread is dispatched round-robin.
    #[serde(default)]
    pub actors: Vec<u8>,
}

/// `actor_mode`: 0 = every op by the plain driver thread, 1 = every op by one task,
/// 2 = generated per op among {thread, task 1, task 2}.
pub fn strategy(min_loops: u8, max_loops: u8, actor_mode: u8) -> impl Strategy<Value = Case> {
    (
        min_loops..=max_loops,
        proptest::collection::vec(
            (
                prop_oneof![
                    6 => (0u8..3).prop_map(|s| Op::WaitRead { s }),
                    6 => (0u8..3).prop_map(|s| Op::WaitWrite { s }),
                    3 => (0u8..3).prop_map(|s| Op::DelRead { s }),
                    3 => (0u8..3).prop_map(|s| Op::DelWrite { s }),
                    1 => (0u8..3).prop_map(|s| Op::DelBoth { s }),
                    2 => (0u8..3, 0u8..3).prop_map(|(s, how)| Op::Shutdown { s, how }),
                    2 => (0u8..3).prop_map(|s| Op::Close { s }),
                    3 => (0u8..3).prop_map(|s| Op::Reopen { s }),
                    4 => (0u8..3).prop_map(|s| Op::PeerWrite { s }),
                    1 => (0u8..3).prop_map(|s| Op::Drain { s }),
                ],
                0u8..3,
            ),
            1..24,
        ),
    )
        .prop_map(move |(loops, v)| {
            let (ops, actors): (Vec<Op>, Vec<u8>) = v.into_iter().unzip();
            let actors = match actor_mode {
                0 => vec![],
                1 => vec![1; ops.len()],
                _ => actors,
            };
            Case { loops, ops, actors }
        })
}

/// The part of an op that touches the runtime, executed by the chosen actor. Returns
/// (ok, note).
fn runtime_call(op: Op, fd: c_int, peer: c_int) -> (bool, String) {
    let w = Some(Duration::from_millis(1));
    match op {
        Op::WaitRead { .. } => {
            let r = EventLoops::wait_read_event(fd, w);
            (r.is_ok(), if r.is_ok() { String::new() } else { format!("wait_read_event: {r:?}") })
        }
        Op::WaitWrite { .. } => {
            let r = EventLoops::wait_write_event(fd, w);
            (r.is_ok(), if r.is_ok() { String::new() } else { format!("wait_write_event: {r:?}") })
        }
        Op::DelRead { .. } => {
            let r = EventLoops::del_read_event(fd);
            (r.is_ok(), if r.is_ok() { String::new() } else { format!("del_read_event: {r:?}") })
        }
        Op::DelWrite { .. } => {
            let r = EventLoops::del_write_event(fd);
            (r.is_ok(), if r.is_ok() { String::new() } else { format!("del_write_event: {r:?}") })
        }
        Op::DelBoth { .. } => {
            let r = EventLoops::del_event(fd);
            (r.is_ok(), if r.is_ok() { String::new() } else { format!("del_event: {r:?}") })
        }
        Op::Shutdown { how, .. } => {
            let how_c = [libc::SHUT_RD, libc::SHUT_WR, libc::SHUT_RDWR][how as usize % 3];
            let r = hooked::shutdown(None, fd, how_c);
            (true, if r == 0 { String::new() } else { format!("shutdown returned {r}") })
        }
        Op::Close { .. } => {
            let a = hooked::close(None, fd);
            let b = hooked::close(None, peer);
            (true, if a == 0 && b == 0 { String::new() } else { format!("close returned {a},{b}") })
        }
        Op::Reopen { .. } => (true, String::new()),
        Op::PeerWrite { .. } => {
            let b = [7u8];
            let r = unsafe { libc::send(peer, b.as_ptr().cast(), 1, libc::MSG_DONTWAIT | libc::MSG_NOSIGNAL) };
            // give the event loop time to fetch and dispatch the readiness event
            std::thread::sleep(Duration::from_millis(3));
            (true, if r == 1 { String::new() } else { format!("peer send returned {r}") })
        }
        Op::Drain { .. } => {
            let mut b = [0u8; 64];
            let r = unsafe { libc::recv(fd, b.as_mut_ptr().cast(), 64, libc::MSG_DONTWAIT) };
            (true, format!("drained {r}"))
        }
    }
}

type Cmd = (Op, c_int, c_int);

struct Actor {
    tx: std::sync::mpsc::Sender<Cmd>,
    rx: std::sync::mpsc::Receiver<(bool, String, String)>,
}

fn spawn_actor(name: &str) -> Actor {
    let (tx, crx) = std::sync::mpsc::channel::<Cmd>();
    let (rtx, rx) = std::sync::mpsc::channel::<(bool, String, String)>();
    let _ = EventLoops::submit_task(
        Some(name.to_string()),
        move |_| {
            struct G;
            impl Drop for G {
                fn drop(&mut self) {
                    if std::env::var_os("C21_DEBUG").is_some() {
                        eprintln!("actor closure dropped on {:?}: {}", std::thread::current().name(), std::backtrace::Backtrace::force_capture());
                    }
                }
            }
            let _g = G;
            loop {
                match crx.try_recv() {
                    Ok((op, fd, peer)) => {
                        let (ok, note) = runtime_call(op, fd, peer);
                        let th = std::thread::current().name().unwrap_or("?").to_string();
                        let _ = rtx.send((ok, note, th));
                    }
                    Err(std::sync::mpsc::TryRecvError::Empty) => {
                        if let Some(s) = open_coroutine_core::scheduler::SchedulableSuspender::current() {
                            s.delay(Duration::from_micros(300));
                        }
                    }
                    Err(std::sync::mpsc::TryRecvError::Disconnected) => break,
                }
            }
            None
        },
        None,
        None,
    );
    Actor { tx, rx }
}

fn epoll_fds() -> Vec<c_int> {
    let mut v = vec![];
    if let Ok(rd) = std::fs::read_dir("/proc/self/fd") {
        for e in rd.flatten() {
            if let Ok(t) = std::fs::read_link(e.path()) {
                if t.to_string_lossy() == "anon_inode:[eventpoll]" {
                    if let Ok(n) = e.file_name().to_string_lossy().parse::<c_int>() {
                        v.push(n);
                    }
                }
            }
        }
    }
    v.sort_unstable();
    v
}

/// fd -> union of event masks over all epoll instances of the process
fn registered() -> BTreeMap<c_int, u32> {
    let mut m = BTreeMap::new();
    for ep in epoll_fds() {
        if let Ok(s) = std::fs::read_to_string(format!("/proc/self/fdinfo/{ep}")) {
            for l in s.lines() {
                // tfd:        5 events: 80002019 data: ...
                if let Some(rest) = l.strip_prefix("tfd:") {
                    let mut it = rest.split_whitespace();
                    let fd = it.next().and_then(|x| x.parse::<c_int>().ok());
                    let _ = it.next();
                    let ev = it.next().and_then(|x| u32::from_str_radix(x, 16).ok());
                    if let (Some(fd), Some(ev)) = (fd, ev) {
                        *m.entry(fd).or_insert(0) |= ev;
                    }
                }
            }
        }
    }
    m
}

pub fn child_main() -> i32 {
    let case: Case = serde_json::from_value(child::read_stdin_json()).expect("case");
    let mut cfg = Config::single();
    cfg.set_hook(false);
    cfg.set_event_loop_size(case.loops.max(1) as usize);
    EventLoops::init(&cfg);
    let mut slots: [Option<(c_int, c_int)>; 3] = [None; 3];
    let open = |slots: &mut [Option<(c_int, c_int)>; 3], s: usize| {
        let mut p = [0 as c_int; 2];
        unsafe {
            assert_eq!(0, libc::socketpair(libc::AF_UNIX, libc::SOCK_STREAM, 0, p.as_mut_ptr()));
        }
        slots[s] = Some((p[0], p[1]));
    };
    for s in 0..3 {
        open(&mut slots, s);
    }
    // model: fd -> (read interest, write interest)
    let mut model: BTreeMap<c_int, (bool, bool)> = BTreeMap::new();
    let mut both_then_removed_one = false;
    let mut reused = false;
    let mut read_event_fired = false;
    let mut closed_numbers: Vec<c_int> = vec![];
    let need_tasks = case.actors.iter().any(|a| *a != 0);
    let actors: Vec<Actor> = if need_tasks { vec![spawn_actor("c21-actor-1"), spawn_actor("c21-actor-2")] } else { vec![] };
    let mut actor_threads: std::collections::BTreeSet<String> = std::collections::BTreeSet::new();
    for (k, op) in case.ops.iter().enumerate() {
        child::emit(json!({"ev":"start","k":k}));
        let mut note = String::new();
        let who = case.actors.get(k).copied().unwrap_or(0) % 3;
        let s_ix = match *op {
            Op::WaitRead { s } | Op::WaitWrite { s } | Op::DelRead { s } | Op::DelWrite { s } | Op::DelBoth { s } | Op::Shutdown { s, .. } | Op::Close { s } | Op::Reopen { s } | Op::PeerWrite { s } | Op::Drain { s } => s as usize % 3,
        };
        if let Op::Reopen { .. } = *op {
            if slots[s_ix].is_none() {
                open(&mut slots, s_ix);
                let (a, _) = slots[s_ix].unwrap();
                if closed_numbers.contains(&a) {
                    reused = true;
                }
            }
        } else if let Some((fd, peer)) = slots[s_ix] {
            // bookkeeping that must look at the model before the call
            {
                let e = model.entry(fd).or_default();
                let removes_one = matches!(*op, Op::DelRead { .. } | Op::DelWrite { .. }) || matches!(*op, Op::Shutdown { how, .. } if how % 3 != 2);
                if e.0 && e.1 && removes_one {
                    both_then_removed_one = true;
                }
            }
            let plain = matches!(*op, Op::PeerWrite { .. } | Op::Drain { .. });
            if let Op::PeerWrite { .. } = *op {
                if model.get(&fd).is_some_and(|e| e.0) {
                    read_event_fired = true;
                }
            }
            let (ok, n) = if who == 0 || actors.is_empty() || plain {
                runtime_call(*op, fd, peer)
            } else {
                let a = &actors[(who - 1) as usize];
                let _ = a.tx.send((*op, fd, peer));
                match a.rx.recv_timeout(Duration::from_secs(10)) {
                    Ok((ok, n, th)) => {
                        actor_threads.insert(th);
                        (ok, n)
                    }
                    Err(_) => {
                        // the task never answered: leave the op open, the parent reports it
                        std::thread::sleep(Duration::from_secs(60));
                        (false, "actor task did not answer".into())
                    }
                }
            };
            note = n;
            let e = model.entry(fd).or_default();
            match *op {
                Op::WaitRead { .. } if ok => e.0 = true,
                Op::WaitWrite { .. } if ok => e.1 = true,
                Op::DelRead { .. } if ok => e.0 = false,
                Op::DelWrite { .. } if ok => e.1 = false,
                Op::DelBoth { .. } if ok => *e = (false, false),
                Op::Shutdown { how, .. } => match how % 3 {
                    0 => e.0 = false,
                    1 => e.1 = false,
                    _ => *e = (false, false),
                },
                Op::Close { .. } => {
                    slots[s_ix] = None;
                    model.remove(&fd);
                    model.remove(&peer);
                    closed_numbers.push(fd);
                    closed_numbers.push(peer);
                }
                _ => {}
            }
        }
        // compare kernel view with the model for every live descriptor
        let reg = registered();
        let mut bad = vec![];
        for (fd, _) in slots.iter().flatten() {
            let (mr, mw) = model.get(fd).copied().unwrap_or((false, false));
            let ev = reg.get(fd).copied();
            let (kr, kw) = ev.map_or((false, false), |e| (e & 0x1 != 0, e & 0x4 != 0));
            if (mr, mw) != (kr, kw) {
                bad.push(json!({"fd":fd,"model":[mr,mw],"kernel":[kr,kw],"mask":ev.map(|e| format!("{e:#x}"))}));
            } else if !(mr || mw) && ev.is_some() && ev != Some(0) {
                // registered with some other bits only: still counts as "no read/write interest"
            }
        }
        child::emit(json!({"ev":"done","k":k,"bad":bad,"note":note}));
    }
    child::emit(json!({"ev":"result","both_then_removed_one":both_then_removed_one,"reused":reused,"read_event_fired":read_event_fired,"epolls":epoll_fds().len(),"actor_threads":actor_threads.len()}));
    // actor tasks are still polling their channels: leave without tearing the runtime down
    unsafe { libc::_exit(0) }
}

/// With two event loops the ops of a history reach more than one selector: a plain thread
/// is dispatched round-robin, the two tasks live on different loops, and even a single task
/// migrates between loops when its suspended coroutine is stolen. The interest records are
/// process-wide while registrations are per loop, so such histories are judged under their
/// own signature prefix (see known_findings.json).
pub fn several_selectors(c: &Case) -> bool {
    c.loops >= 2
}

pub fn exec(c: &Case) -> Outcome {
    let pre = if several_selectors(c) { "C21/2-loops" } else { "C21" };
    let js = serde_json::to_string(c).unwrap();
    let r = child::run_child(&ChildSpec { args: vec!["C21child".into()], stdin: &js, timeout: Duration::from_secs(20), env: vec![] });
    let mut o = Outcome::pass();
    match &r.end {
        End::Exit(0) => {}
        End::Signal(sig) => {
            if let Some(k) = r.open_op().and_then(|v| v["k"].as_u64()) {
                o.set_fail(
                    format!("{pre}/process-killed-while-changing-interest"),
                    format!("child killed by signal {sig} during op #{k} {:?}; {}", c.ops.get(k as usize), r.stderr_tail.lines().rev().take(2).collect::<Vec<_>>().join(" | ")),
                );
            } else {
                o.excluded = Some("child-died-outside-any-op");
            }
            return o;
        }
        End::Deadline { .. } => {
            o.set_fail(format!("{pre}/call-did-not-return"), format!("open op {:?}", r.open_op()));
            return o;
        }
        End::Exit(_) => {
            o.excluded = Some("child-exited-nonzero");
            return o;
        }
    }
    if let Some(res) = r.result() {
        let a = res["both_then_removed_one"].as_bool().unwrap_or(false);
        let b = res["reused"].as_bool().unwrap_or(false);
        let f = res["read_event_fired"].as_bool().unwrap_or(false);
        o.nontrivial = a || b;
        o = o.class_if(f, "read-event-delivered-while-interest-outstanding");
        let t = res["actor_threads"].as_u64().unwrap_or(0);
        o = o.class_if(a, "both-interests-then-one-removed").class_if(b, "descriptor-number-reused").class_if(c.loops > 1, "2+event-loops").class_if(t >= 2, "task-callers-on-2-loop-threads").class_if(c.actors.iter().any(|x| *x != 0), "ops-issued-from-tasks");
    }
    for l in r.find("done") {
        if let Some(b) = l["bad"].as_array().and_then(|b| b.first()) {
            let k = l["k"].as_u64().unwrap_or(0) as usize;
            let kind = match (b["model"][0].as_bool(), b["model"][1].as_bool(), b["kernel"][0].as_bool(), b["kernel"][1].as_bool()) {
                (Some(mr), Some(mw), Some(kr), Some(kw)) => {
                    if (kr && !mr) || (kw && !mw) {
                        "stale-interest-left-registered"
                    } else if (!kr && mr) || (!kw && mw) {
                        "outstanding-interest-not-registered"
                    } else {
                        "mismatch"
                    }
                }
                _ => "mismatch",
            };
            o.set_fail(
                format!("{pre}/{kind}"),
                format!("after op #{k} {:?}: descriptor {} model [read,write]={} kernel={} (epoll mask {})", c.ops[k], b["fd"], b["model"], b["kernel"], b["mask"]),
            );
            return o;
        }
    }
    o
}

pub fn main(args: &Args) -> i32 {
    if let Some(p) = &args.replay {
        let (_, _, case) = vkit::load_replay(p);
        return vkit::replay_verdict("C21", p, &exec(&serde_json::from_value(case).expect("case")));
    }
    let mut ev = Evidence::new("C21", args, "exploration");
    ev.assume("an interest is outstanding from the wait that registered it until it is removed through del_*/shutdown/close (the runtime never removes it by itself); the kernel's /proc/self/fdinfo of the epoll descriptor is ground truth");
    ev.assume("with two event loops a history whose ops reach more than one selector (plain-thread callers are dispatched round-robin; tasks on different loops) is judged under its own signature prefix, because the interest records are process-wide while registrations are per loop");
    ev.add(vkit::run_regress("C21", |_s, case| exec(&serde_json::from_value(case).expect("case"))));
    if ev.has_violations() {
        return ev.finish();
    }
    let rule = "histories of 1..23 ops over 3 socketpairs: wait read/write (1 ms), remove read/write/both, shutdown(RD|WR|RDWR), close, reopen, peer writes a byte (a registered read interest fires), drain; each op issued by a plain thread or by one of two tasks; non-trivial = a descriptor had both interests and one was removed, or a closed descriptor number was reused";
    let n = args.cases(900, 12_000);
    for (sub, lo, hi, mode, share) in [
        ("1-loop-any-caller", 1u8, 1u8, 2u8, 0.55),
        ("1-loop-thread-caller", 1, 1, 0, 0.15),
        ("1-loop-one-task-caller", 1, 1, 1, 0.15),
        ("2-loops", 2, 2, 2, 0.15),
    ] {
        ev.add(vkit::run_prop(
            &RunCfg { property: "C21", sub, rule, seed: args.seed, cases: ((n as f64) * share).ceil() as u32, shards: 8, max_shrink_iters: 400 },
            move || strategy(lo, hi, mode),
            exec,
        ));
    }
    ev.finish()
}

//! C13 — cancelling a task affects only that task (engine: `rt`).
//!
//! Case: 1..2 event loops with max_size 1 or 2, and a history of gate tasks (hold a worker,
//! suspended or spinning), submissions queued behind them, cancels of tasks in every state
//! (queued, running, suspended, finished; repeated cancels; optionally with the canceller
//! held between the running-coroutine lookup and the signal), joins, releases and sleeps.
//! Oracle:
//!  (a) a task cancelled while it provably could not have been taken from the queue yet
//!      (every worker of the single loop was held by a gate that had started and not ended
//!      when the cancel was issued, and the task had not started) never executes;
//!  (b) a join on such a task does not stay blocked: it returns before its (>= 1.5 s)
//!      timeout, given that work submitted later to the same loop ran;
//!  (c) every task that was never the target of a cancel executes exactly once, finishes,
//!      and (one loop) its join returns its own outcome.

use super::rt::{self, Body, Case, Log, Op, Run};
use proptest::prelude::*;
use std::time::Duration;
use vkit::{Args, Evidence, Outcome, RunCfg};

fn bystander_body() -> impl Strategy<Value = Body> {
    prop_oneof![
        3 => Just(Body::Return),
        1 => Just(Body::ReturnNone),
        1 => Just(Body::PanicStatic),
        3 => (1u8..30).prop_map(Body::Delay),
        3 => (1u8..30).prop_map(Body::Spin),
        2 => (1u8..20).prop_map(Body::Usleep),
    ]
}

pub fn strategy(min_loops: u8, max_loops: u8) -> impl Strategy<Value = Case> {
    let op = prop_oneof![
        4 => prop_oneof![2 => Just(Body::GateSuspended), 2 => Just(Body::GateSpinning), 3 => (5u8..60).prop_map(Body::GateSpinThenDelay)].prop_map(|body| Op::Submit { body, prio: 0 }),
        6 => (bystander_body(), 0i8..6).prop_map(|(body, prio)| Op::Submit { body, prio }),
        6 => (any::<u16>(), prop_oneof![3 => Just(0u8), 2 => 1u8..40]).prop_map(|(task, park_ms)| Op::Cancel { task, park_ms }),
        3 => (any::<u16>(), 1500u16..3000).prop_map(|(task, timeout_ms)| Op::Join { task, timeout_ms }),
        2 => (0u8..30).prop_map(Op::Sleep),
        2 => any::<u16>().prop_map(|task| Op::Release { task }),
        3 => any::<u16>().prop_map(|task| Op::AwaitStart { task }),
    ];
    // half of the histories start with a prefix that sets up one of the interesting states for
    // certain (the suffix is free): a task queued behind a gate and cancelled there, or a
    // running task that is cancelled while the canceller is held and that then suspends
    let prefix = prop_oneof![
        4 => Just(vec![]),
        2 => (bystander_body(), 1500u16..3000, any::<bool>()).prop_map(|(b, to, join)| {
            let mut v = vec![Op::Submit { body: Body::GateSuspended, prio: 0 }, Op::AwaitStart { task: 0 }, Op::Submit { body: b, prio: 0 }, Op::Cancel { task: 65535, park_ms: 0 }];
            if join {
                v.push(Op::Join { task: 65535, timeout_ms: to });
            }
            v.push(Op::Sleep(3));
            v.push(Op::Release { task: 0 });
            v.push(Op::Submit { body: Body::Return, prio: 0 });
            v
        }),
        2 => (5u8..60, 20u8..70, 5u8..40).prop_map(|(d, spin, park)| vec![
            Op::Submit { body: Body::GateSpinThenDelay(d), prio: 0 },
            Op::Submit { body: Body::Spin(spin), prio: 0 },
            Op::AwaitStart { task: 0 },
            Op::Cancel { task: 0, park_ms: park },
        ]),
        2 => (50u8..120, 40u8..90, 1u8..12).prop_map(|(d, spin, wait)| vec![
            // cancel a task that is parked in a delay while another task computes on the same loop
            Op::Submit { body: Body::Delay(d), prio: 0 },
            Op::AwaitStart { task: 0 },
            Op::Submit { body: Body::Spin(spin), prio: 0 },
            Op::AwaitStart { task: 1 },
            Op::Sleep(wait),
            Op::Cancel { task: 0, park_ms: 0 },
        ]),
        1 => (bystander_body(), 1u8..30).prop_map(|(b, ms)| vec![
            // cancel a task twice while another one is running
            Op::Submit { body: Body::GateSuspended, prio: 0 },
            Op::AwaitStart { task: 0 },
            Op::Submit { body: Body::Return, prio: 0 },
            Op::Cancel { task: 65535, park_ms: 0 },
            Op::Submit { body: b, prio: 0 },
            Op::Release { task: 0 },
            Op::Sleep(ms),
            Op::Cancel { task: 30000, park_ms: 0 },
        ]),
    ];
    (min_loops..=max_loops, 0u8..2, prefix, proptest::collection::vec(op, 2..14)).prop_map(|(loops, max_size, mut pre, ops)| {
        pre.extend(ops);
        Case { loops, max_size, ops: pre }
    })
}

fn own_outcome_ok(l: &Log, j: &rt::JoinLog) -> bool {
    let t = &l.tasks[j.task];
    match j.kind.as_str() {
        "value" => !matches!(t.body, Body::ReturnNone | Body::PanicStatic | Body::PanicString) && j.v == Some(rt::expected_value(t.k) as u64),
        "none" => t.body == Body::ReturnNone,
        "error" => matches!(t.body, Body::PanicStatic | Body::PanicString) && j.m.contains(&rt::panic_text(t.k)),
        _ => false,
    }
}

pub fn judge(c: &Case, run: Run) -> Outcome {
    let mut o = Outcome::pass();
    let pre = if c.loops >= 2 { "C13/2+loops" } else { "C13" };
    let l: Log = match run {
        Run::Log(l) => l,
        Run::Broken(sig, msg, met_started) => {
            // same family rule as below: a cancel that may have met a started task
            let fam = if met_started { format!("{pre}/cancel-of-a-started-task") } else { pre.to_string() };
            o.set_fail(format!("{fam}/{sig}"), msg);
            return o;
        }
        Run::Excluded(why) => {
            o.excluded = Some(why);
            return o;
        }
    };
    let workers = rt::max_size_of(c) * usize::from(c.loops);
    let targets: std::collections::HashSet<usize> = l.cancels.iter().map(|x| x.task).collect();
    // first cancel per task
    let mut first: std::collections::HashMap<usize, &rt::CancelLog> = std::collections::HashMap::new();
    for x in &l.cancels {
        first.entry(x.task).or_insert(x);
    }
    // the target may start between the harness's sample and the runtime's own lookup, so the
    // sample taken after the call (and the fact that the canceller was held on the signal
    // path) decide whether a cancel may have met a started task
    let hit_running_or_suspended = l.cancels.iter().any(|x| (x.started_after && !x.ended_before) || x.parked);
    let repeated = l.cancels.len() > targets.len();
    let queued_for_sure: Vec<usize> = first.iter().filter(|(_, x)| c.loops == 1 && !x.started_before && x.busy_gates >= workers).map(|(k, _)| *k).collect();
    o.nontrivial = hit_running_or_suspended || l.cancel_parked > 0 || !queued_for_sure.is_empty();
    o = o
        .class_if(hit_running_or_suspended, "cancel-hit-a-running-or-suspended-task")
        .class_if(l.cancel_parked > 0, "canceller-held-between-lookup-and-signal")
        .class_if(!queued_for_sure.is_empty(), "cancel-hit-a-task-that-was-certainly-still-queued")
        .class_if(repeated, "same-task-cancelled-more-than-once")
        .class_if(l.cancels.iter().any(|x| x.ended_before), "cancel-after-the-task-had-finished")
        .class_if(c.loops >= 2, "2-event-loops");
    let unfinished_bystander = l.tasks.iter().any(|t| !targets.contains(&t.k) && t.ended == 0);
    if unfinished_bystander && !l.host_calm {
        o.excluded = Some("host-not-responsive-during-quiescence");
        return o;
    }
    // A cancel aimed at a task that had started and not finished takes the signal path (or
    // the cancel-the-coroutine path); problems of bystanders in such histories are reported
    // under their own family, see known_findings.json.
    // A target that sits in a single `delay(ms)` is off the CPU from shortly after its start until
    // its wake-up time: a cancel that begins >= 2 ms after the start and returns >= 3 ms before
    // the wake-up time, without the canceller having been on the signal path, has met a *parked*
    // task. Nothing is signalled then; bystanders must not notice (strict signatures).
    let certainly_parked = |x: &rt::CancelLog| {
        let t = &l.tasks[x.task];
        match t.body {
            Body::Delay(ms) if ms >= 12 && !x.parked && t.started != 0 => x.at >= t.started + 2_000_000 && x.done + 3_000_000 <= t.started + u64::from(ms) * 1_000_000,
            _ => false,
        }
    };
    let met: Vec<&rt::CancelLog> = l.cancels.iter().filter(|x| (x.started_after && !x.ended_before) || x.parked).collect();
    let only_parked_targets = !met.is_empty() && met.iter().all(|x| certainly_parked(x));
    o = o.class_if(met.iter().any(|x| certainly_parked(x)), "cancel-hit-a-task-parked-in-a-delay");
    let fam = if only_parked_targets {
        format!("{pre}/cancel-of-a-parked-task")
    } else if hit_running_or_suspended {
        format!("{pre}/cancel-of-a-started-task")
    } else {
        pre.to_string()
    };
    // (a)
    for k in &queued_for_sure {
        let t = &l.tasks[*k];
        if t.exec > 0 {
            o.set_fail(
                format!("{pre}/task-cancelled-before-it-started-was-executed"),
                format!("task {} {:?} was cancelled while every worker was held by a gate and it had not started, yet it executed {} time(s)", t.k, t.body, t.exec),
            );
            return o;
        }
    }
    // (c) bystanders
    for t in &l.tasks {
        if targets.contains(&t.k) {
            continue;
        }
        if t.exec > 1 {
            o.set_fail(format!("{fam}/bystander-executed-more-than-once"), format!("task {} {:?} (never cancelled) executed {} times", t.k, t.body, t.exec));
            return o;
        }
        if t.exec == 0 {
            o.set_fail(
                format!("{fam}/bystander-never-executed"),
                format!("task {} {:?} was never the target of a cancel and never executed (cancels were issued for tasks {:?}; sentinels ran: {})", t.k, t.body, l.cancels.iter().map(|x| x.task).collect::<Vec<_>>(), l.sentinels_ok),
            );
            return o;
        }
        if t.ended == 0 && !matches!(t.body, Body::PanicStatic | Body::PanicString) {
            o.set_fail(
                format!("{fam}/bystander-interrupted"),
                format!("task {} {:?} was never the target of a cancel, started on {} and never reached its end (cancels were issued for tasks {:?})", t.k, t.body, t.thread, l.cancels.iter().map(|x| (x.task, x.parked)).collect::<Vec<_>>()),
            );
            return o;
        }
    }
    let mut per_task = std::collections::HashMap::new();
    for j in &l.joins {
        *per_task.entry(j.task).or_insert(0usize) += 1;
    }
    for j in &l.joins {
        if per_task[&j.task] != 1 {
            continue;
        }
        let t = &l.tasks[j.task];
        if !targets.contains(&t.k) {
            // (a timed-out join on a bystander is C02's business, not judged here)
            if c.loops == 1 && j.kind != "timeout" && !own_outcome_ok(&l, j) {
                o.set_fail(
                    format!("{pre}/bystander-join-not-its-own-outcome"),
                    format!("join on task {} {:?} (never cancelled) returned {} {:?} {:?}", t.k, t.body, j.kind, j.v, j.m),
                );
                return o;
            }
        } else if queued_for_sure.contains(&t.k) && j.kind == "timeout" {
            // (b) the loop can only notice the cancellation when it takes the task from the
            // queue. With one loop, fewer than 256 queued tasks and equal priorities the
            // queue is FIFO, so that has certainly happened once a task of the same priority
            // that was submitted later has started; demand the join's return only if that
            // point (and the cancel) lies at least 500 ms before the join's deadline.
            let deadline = j.called + j.timeout_ms * 1_000_000;
            let earlier: Vec<&rt::TaskLog> = l
                .tasks
                .iter()
                .filter(|x| x.k != t.k && rt::prio_of(x.prio).unwrap_or(0) == rt::prio_of(t.prio).unwrap_or(0) && x.submitted > t.submitted && x.started != 0 && !targets.contains(&x.k))
                .collect();
            let drained_at = earlier.iter().map(|x| x.started).min().unwrap_or(u64::MAX);
            let cancel_done = first[&t.k].done;
            if !earlier.is_empty() && drained_at != u64::MAX && drained_at.max(cancel_done) + 500_000_000 < deadline {
                o.set_fail(
                    format!("{pre}/waiter-of-a-cancelled-task-left-blocked"),
                    format!(
                        "join (timeout {} ms) on task {} {:?}, which was cancelled before it started, was still blocked when its timeout ran out, {} ms after a later task of the same priority had started (so the cancelled one had been taken from the queue); an un-timed join would block forever",
                        j.timeout_ms,
                        t.k,
                        t.body,
                        (deadline - drained_at.max(cancel_done)) / 1_000_000
                    ),
                );
                return o;
            }
        }
    }
    o
}

pub fn exec_once(c: &Case) -> Outcome {
    judge(c, rt::run_case(c, Duration::from_secs(90)))
}

pub fn exec(c: &Case) -> Outcome {
    exec_once(c)
}

pub fn exec_replay(c: &Case) -> Outcome {
    let mut last = Outcome::pass();
    for _ in 0..20 {
        last = exec_once(c);
        if last.fail.is_some() {
            break;
        }
    }
    last
}

pub fn main(args: &Args) -> i32 {
    if let Some(p) = &args.replay {
        let (_, _, case) = vkit::load_replay(p);
        return vkit::replay_verdict("C13", p, &exec_replay(&serde_json::from_value(case).expect("case")));
    }
    let mut ev = Evidence::new("C13", args, "exploration");
    ev.assume("'cancelled before it starts' is judged only where it is certain: one event loop, every worker held by a gate task that had started and not ended when the cancel was issued, and the target had not started");
    ev.assume("bystander = a task that was never the target of any cancel; it must execute exactly once and reach its end (3 s without progress on a responsive host decides 'never'); a saved case is replayed up to 20 times because the schedule is not owned");
    ev.add(vkit::run_regress("C13", |_s, case| {
        let c: Case = serde_json::from_value(case).expect("case");
        let mut last = Outcome::pass();
        for _ in 0..3 {
            last = exec_once(&c);
            if last.fail.is_some() {
                break;
            }
        }
        last
    }));
    if ev.has_violations() {
        return ev.finish();
    }
    let rule = "fresh child per case: max_size 1..2 (fewer than 256 tasks, so a loop's queue is FIFO among equal priorities), 3..15 ops out of gate submit, bystander submit, cancel (optionally held between lookup and signal, repeated), join, sleep, release; non-trivial = a cancel hit a running or suspended task, or the canceller was held, or a cancel hit a certainly-queued task";
    ev.add(vkit::run_prop(&RunCfg { property: "C13", sub: "1-loop", rule, seed: args.seed, cases: args.cases(500, 6_000), shards: 12, max_shrink_iters: 80 }, || strategy(1, 1), exec));
    ev.add(vkit::run_prop(&RunCfg { property: "C13", sub: "2-loops", rule, seed: args.seed, cases: args.cases(150, 2_000), shards: 12, max_shrink_iters: 40 }, || strategy(2, 2), exec));
    ev.finish()
}

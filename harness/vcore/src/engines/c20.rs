//! C20 — readiness wakes exactly the waiting coroutine, promptly.
//!
//! Case (fresh child, one event loop): 1..4 tasks each block in a hooked `recv` on their own
//! socketpair; the harness writes to generated targets, each write timed a generated
//! 1..6 ms after the target's last "parked" event, i.e. well inside its 10 ms wait slice.
//! Hook H3 reports every `EventLoop::resume(token)` (hit/miss) and how each waiter was
//! resumed (Callback = readiness, Timeout = its periodic wait slice).
//! Oracle: (a) every resume-by-token the loop performs carries the id of a coroutine that
//! is waiting, and hits; (b) the target's first resumption after the write is `Callback`;
//! (c) a coroutine whose descriptor was never written is never resumed with `Callback` and
//! no resume carries its id.

use libc::c_int;
use open_coroutine_core::common::now;
use open_coroutine_core::config::Config;
use open_coroutine_core::net::EventLoops;
use open_coroutine_core::scheduler::SchedulableCoroutine;
use open_coroutine_core::syscall as hooked;
use proptest::prelude::*;
use serde::{Deserialize, Serialize};
use serde_json::json;
use std::sync::atomic::{AtomicU64, Ordering};
use std::sync::{Arc, Mutex};
use std::time::{Duration, Instant};
use vkit::child::{self, ChildSpec, End};
use vkit::{Args, Evidence, Outcome, RunCfg};

#[derive(Debug, Clone, Serialize, Deserialize)]
pub struct Case {
    /// number of event loops (1 or 2); tasks are dispatched round-robin
    #[serde(default)]
    pub loops: u8,
    pub tasks: u8,
    /// (target index, delay after its last parked event in units of 0.5 ms)
    pub writes: Vec<(u8, u8)>,
    /// number of SIGUSR1 (no-op handler, no SA_RESTART) delivered to every event-loop thread
    /// before write k, so that a blocking poll of the loop is interrupted (EINTR); missing = 0
    #[serde(default)]
    pub signals: Vec<u8>,
    /// bit i set: before its recv loop, task i gives its descriptor number a previous life --
    /// a socket of its own that it waits on for reading and for writing (both time out) and
    /// closes through the hooked close; the task's real socket is then moved (dup2) onto that
    /// descriptor number
    #[serde(default)]
    pub prelife: u8,
}

pub fn strategy() -> impl Strategy<Value = Case> {
    (1u8..=2, 1u8..=4, proptest::collection::vec(((0u8..4, 2u8..12), prop_oneof![3 => Just(0u8), 2 => 1u8..4]), 1..4), prop_oneof![1 => Just(0u8), 1 => 0u8..16]).prop_map(|(loops, tasks, w, prelife)| {
        let (writes, signals): (Vec<(u8, u8)>, Vec<u8>) = w.into_iter().unzip();
        Case { loops, tasks, writes, signals, prelife }
    })
}

#[derive(Debug, Clone, Copy)]
struct Ev {
    at: u64,
    kind: u8, // 0 parking, 1 resumed, 2 loop-resume
    a: u64,
    b: u64,
    /// the OS thread the event was reported from
    thread: u64,
}

static EVENTS: Mutex<Vec<Ev>> = Mutex::new(Vec::new());

fn handler(name: &'static str, a: u64, b: u64) {
    let kind = match name {
        "wait_just:parking" => 0,
        "wait_just:resumed" => 1,
        "event_loop:resume" => 2,
        _ => return,
    };
    EVENTS.lock().unwrap().push(Ev { at: now(), kind, a, b, thread: unsafe { libc::pthread_self() } as u64 });
}

pub fn child_main() -> i32 {
    let case: Case = serde_json::from_value(child::read_stdin_json()).expect("case");
    let n = case.tasks.clamp(1, 4) as usize;
    let mut cfg = Config::single();
    cfg.set_hook(false);
    cfg.set_event_loop_size(case.loops.clamp(1, 2) as usize);
    EventLoops::init(&cfg);
    open_coroutine_core::verif::set_handler(Some(handler));
    let mut pairs: Vec<(c_int, c_int)> = vec![];
    for _ in 0..n {
        let mut p = [0 as c_int; 2];
        unsafe {
            assert_eq!(0, libc::socketpair(libc::AF_UNIX, libc::SOCK_STREAM, 0, p.as_mut_ptr()));
        }
        pairs.push((p[0], p[1]));
    }
    extern "C" fn noop(_: c_int) {}
    unsafe {
        let mut sa: libc::sigaction = std::mem::zeroed();
        sa.sa_sigaction = noop as *const () as usize;
        sa.sa_flags = 0;
        libc::sigaction(libc::SIGUSR1, &sa, std::ptr::null_mut());
    }
    let threads: Arc<Vec<AtomicU64>> = Arc::new((0..n).map(|_| AtomicU64::new(0)).collect());
    let ids: Arc<Vec<AtomicU64>> = Arc::new((0..n).map(|_| AtomicU64::new(0)).collect());
    let got: Arc<Vec<AtomicU64>> = Arc::new((0..n).map(|_| AtomicU64::new(0)).collect());
    let mut handles = vec![];
    for i in 0..n {
        let (ids, got, threads) = (ids.clone(), got.clone(), threads.clone());
        let real = pairs[i].0;
        let prelife = case.prelife & (1 << i) != 0;
        handles.push(EventLoops::submit_task(
            Some(format!("c20-task-{i}")),
            move |_| {
                threads[i].store(unsafe { libc::pthread_self() } as u64, Ordering::SeqCst);
                let mut fd = real;
                if prelife {
                    fd = previous_life(real);
                }
                ids[i].store(SchedulableCoroutine::current().map_or(0, |c| c.id()), Ordering::SeqCst);
                loop {
                    let mut b = [0u8; 1];
                    let r = hooked::recv(None, fd, b.as_mut_ptr().cast(), 1, 0);
                    if r == 1 {
                        got[i].fetch_add(1, Ordering::SeqCst);
                        if b[0] == 0xff {
                            break;
                        }
                    } else {
                        break;
                    }
                }
                Some(i)
            },
            None,
            None,
        ));
    }
    // wait until every task is parked once
    let t0 = Instant::now();
    loop {
        let parked: std::collections::BTreeSet<u64> = EVENTS.lock().unwrap().iter().filter(|e| e.kind == 0).map(|e| e.a).collect();
        if (0..n).all(|i| {
            let id = ids[i].load(Ordering::SeqCst);
            id != 0 && parked.contains(&id)
        }) {
            break;
        }
        if t0.elapsed() > Duration::from_secs(5) {
            child::emit(json!({"ev":"result","error":"tasks did not park within 5 s"}));
            return 0;
        }
        std::thread::sleep(Duration::from_millis(1));
    }
    let mut writes = vec![];
    let mut written = vec![false; n];
    let mut signalled = 0u32;
    for (wk, (ti, d)) in case.writes.iter().enumerate() {
        let ti = *ti as usize % n;
        let nsig = case.signals.get(wk).copied().unwrap_or(0).min(5);
        if nsig > 0 {
            let loop_threads: std::collections::BTreeSet<u64> = threads.iter().map(|t| t.load(Ordering::SeqCst)).filter(|t| *t != 0).collect();
            for _ in 0..nsig {
                for t in &loop_threads {
                    unsafe {
                        libc::pthread_kill(*t as libc::pthread_t, libc::SIGUSR1);
                    }
                    signalled += 1;
                }
                std::thread::sleep(Duration::from_millis(3));
            }
        }
        let id = ids[ti].load(Ordering::SeqCst);
        let before = got[ti].load(Ordering::SeqCst);
        // wait for a fresh "parked" event of the target, then delay
        let seen = EVENTS.lock().unwrap().iter().filter(|e| e.kind == 0 && e.a == id).count();
        let t1 = Instant::now();
        let mut park_at = 0u64;
        while t1.elapsed() < Duration::from_millis(200) {
            let ev = EVENTS.lock().unwrap();
            let parks: Vec<&Ev> = ev.iter().filter(|e| e.kind == 0 && e.a == id).collect();
            if parks.len() > seen {
                park_at = parks.last().unwrap().at;
                break;
            }
            drop(ev);
            std::hint::spin_loop();
        }
        if park_at == 0 {
            continue;
        }
        let target = park_at + u64::from(*d) * 500_000;
        while now() < target {
            std::hint::spin_loop();
        }
        let wat = now();
        let b = [1u8];
        unsafe {
            libc::write(pairs[ti].1, b.as_ptr().cast(), 1);
        }
        written[ti] = true;
        // wait for the task to consume it
        let t2 = Instant::now();
        while got[ti].load(Ordering::SeqCst) == before && t2.elapsed() < Duration::from_secs(2) {
            std::thread::sleep(Duration::from_micros(200));
        }
        let consumed = got[ti].load(Ordering::SeqCst) > before;
        writes.push(json!({"task":ti,"id":id.to_string(),"park_at":park_at.to_string(),"write_at":wat.to_string(),"consumed":consumed,"consumed_after_us": t2.elapsed().as_micros() as u64}));
        std::thread::sleep(Duration::from_millis(2));
    }
    open_coroutine_core::verif::set_handler(None);
    let evs: Vec<serde_json::Value> = EVENTS.lock().unwrap().iter().map(|e| json!([e.at.to_string(), e.kind, e.a.to_string(), e.b, e.thread.to_string()])).collect();
    let idv: Vec<String> = (0..n).map(|i| ids[i].load(Ordering::SeqCst).to_string()).collect();
    child::emit(json!({"ev":"result","ids":idv,"writes":writes,"written":written,"events":evs,"signalled":signalled}));
    // the tasks are still blocked in recv: leave without tearing the runtime down
    let _ = handles;
    unsafe { libc::_exit(0) }
}

/// Gives a descriptor number a previous life inside the calling task: a socket that is waited
/// on for reading (hooked recv, 2 ms limit, nothing arrives) and for writing (hooked send into
/// a full buffer, 2 ms limit) and then closed through the hooked close. The task's real socket
/// is then moved onto that number. Returns the descriptor the task should use.
fn previous_life(real: c_int) -> c_int {
    let mut p = [0 as c_int; 2];
    unsafe {
        if libc::socketpair(libc::AF_UNIX, libc::SOCK_STREAM, 0, p.as_mut_ptr()) != 0 {
            return real;
        }
    }
    let tv = libc::timeval { tv_sec: 0, tv_usec: 2_000 };
    let len = std::mem::size_of::<libc::timeval>() as libc::socklen_t;
    let _ = hooked::setsockopt(None, p[0], libc::SOL_SOCKET, libc::SO_RCVTIMEO, std::ptr::from_ref(&tv).cast(), len);
    let _ = hooked::setsockopt(None, p[0], libc::SOL_SOCKET, libc::SO_SNDTIMEO, std::ptr::from_ref(&tv).cast(), len);
    let mut b = [0u8; 1];
    let _ = hooked::recv(None, p[0], b.as_mut_ptr().cast(), 1, 0);
    let big = vec![7u8; 1 << 20];
    let _ = hooked::send(None, p[0], big.as_ptr().cast(), big.len(), 0);
    // (a hooked send gives up at its time limit without waiting when the limit is that short;
    // the wait the hooked calls make is issued directly as well)
    let _ = EventLoops::wait_write_event(p[0], Some(Duration::from_millis(1)));
    let _ = hooked::close(None, p[0]);
    unsafe {
        let _ = libc::close(p[1]);
        if libc::dup2(real, p[0]) == p[0] {
            return p[0];
        }
    }
    real
}

fn u(v: &serde_json::Value) -> u64 {
    v.as_str().and_then(|s| s.parse().ok()).unwrap_or(0)
}

/// Every C20 signature depends on where the harness's write lands relative to the loop
/// thread's wait slice, so each deviation is confirmed by three immediate re-executions in
/// fresh children (DESIGN.md §2.5); a defect in the token path deviates every time.
pub fn exec(c: &Case) -> Outcome {
    vkit::timing::confirm_repeat(exec_once(c), |_| true, || exec_once(c), 3)
}

pub fn exec_once(c: &Case) -> Outcome {
    let js = serde_json::to_string(c).unwrap();
    let r = child::run_child(&ChildSpec { args: vec!["C20child".into()], stdin: &js, timeout: Duration::from_secs(30), env: vec![] });
    let mut o = Outcome::pass();
    if r.end != End::Exit(0) {
        o.excluded = Some("child-did-not-exit-cleanly");
        return o;
    }
    let Some(res) = r.result() else {
        o.excluded = Some("child-gave-no-result");
        return o;
    };
    if res.get("error").is_some() {
        o.excluded = Some("tasks-did-not-park");
        return o;
    }
    let ids: Vec<u64> = res["ids"].as_array().map(|a| a.iter().map(u).collect()).unwrap_or_default();
    let written: Vec<bool> = res["written"].as_array().map(|a| a.iter().map(|x| x.as_bool().unwrap_or(false)).collect()).unwrap_or_default();
    let events: Vec<(u64, u64, u64, u64)> = res["events"]
        .as_array()
        .map(|a| a.iter().map(|e| (u(&e[0]), e[1].as_u64().unwrap_or(9), u(&e[2]), e[3].as_u64().unwrap_or(0))).collect())
        .unwrap_or_default();
    // (coroutine id, time, reporting thread) of every parking / resumed event
    let threads_of: Vec<(u64, u64, u64)> = res["events"]
        .as_array()
        .map(|a| a.iter().filter(|e| e[1].as_u64().unwrap_or(9) <= 1).map(|e| (u(&e[2]), u(&e[0]), u(&e[4]))).collect())
        .unwrap_or_default();
    let n = ids.len();
    let mut parked_others = 0;
    let mut judged = 0;
    for w in res["writes"].as_array().cloned().unwrap_or_default() {
        let ti = w["task"].as_u64().unwrap_or(0) as usize;
        let id = u(&w["id"]);
        let park_at = u(&w["park_at"]);
        let write_at = u(&w["write_at"]);
        // the write must have landed inside the slice that began at park_at (<= 8 ms later),
        // otherwise the timing window was missed and this write is not judged
        if write_at < park_at || write_at - park_at > 8_000_000 {
            continue;
        }
        // and no newer parking event of the target may precede the write (it would mean the
        // slice had already expired)
        if events.iter().any(|e| e.1 == 0 && e.2 == id && e.0 > park_at && e.0 <= write_at) {
            continue;
        }
        judged += 1;
        parked_others = parked_others.max(n - 1);
        if !w["consumed"].as_bool().unwrap_or(false) {
            o.set_fail("C20/waiter-never-received-the-data", format!("task {ti}: data written, recv did not return within 2 s"));
            return o;
        }
        // (b) first resumed-event of the target after the write
        if let Some(e) = events.iter().find(|e| e.1 == 1 && e.2 == id && e.0 >= write_at) {
            if e.3 != 1 {
                // with two loops the waiter may have been resumed (slice timeout) by the other
                // loop in the meantime: its interest stays registered with the first loop's
                // poller (interest records are process-wide), whose event then finds nothing
                // to resume -- the root cause listed for C21/2-loops
                let homes: std::collections::BTreeSet<u64> = threads_of.iter().filter(|t| t.0 == id && t.1 <= e.0).map(|t| t.2).collect();
                let sig = if c.loops >= 2 && homes.len() >= 2 { "C20/2-loops/woken-by-periodic-timeout-after-the-waiter-moved-to-another-loop" } else { "C20/woken-by-periodic-timeout-instead-of-readiness" };
                o.set_fail(
                    sig,
                    format!(
                        "task {ti} (coroutine id {id}) parked at t0, its socket became readable {} us later, and it was resumed {} us after the write with {} (1 = Callback, 2 = Timeout)",
                        (write_at - park_at) / 1000,
                        (e.0 - write_at) / 1000,
                        e.3
                    ),
                );
                return o;
            }
        }
    }
    // (a) every resume-by-token names a waiting coroutine and hits
    for e in events.iter().filter(|e| e.1 == 2) {
        let known = ids.iter().position(|i| *i == e.2);
        match known {
            None => {
                o.set_fail(
                    "C20/readiness-event-carries-a-token-that-is-no-waiting-coroutine",
                    format!("the event loop tried to resume token {} which is none of the waiting coroutines' ids {:?} (hit = {})", e.2, ids, e.3),
                );
                return o;
            }
            Some(ix) => {
                if !written.get(ix).copied().unwrap_or(false) {
                    o.set_fail("C20/readiness-resumed-a-coroutine-waiting-on-another-descriptor", format!("resume carried the id of task {ix} whose descriptor was never written"));
                    return o;
                }
                if e.3 == 0 {
                    o.set_fail("C20/readiness-event-for-a-waiting-coroutine-missed", format!("resume(token of task {ix}) found nothing to resume"));
                    return o;
                }
            }
        }
    }
    // (c) unwritten waiters never see Callback
    for (ix, id) in ids.iter().enumerate() {
        if !written.get(ix).copied().unwrap_or(false) && events.iter().any(|e| e.1 == 1 && e.2 == *id && e.3 == 1) {
            o.set_fail("C20/readiness-resumed-a-coroutine-waiting-on-another-descriptor", format!("task {ix} was resumed with Callback although nothing was written to its descriptor"));
            return o;
        }
    }
    if judged == 0 {
        o.excluded = Some("timing-window-missed");
    }
    o.nontrivial = judged >= 1 && n >= 2;
    o.class_if(n >= 2, "2+waiters-parked").class_if(judged >= 2, "2+writes-judged").class_if(c.loops >= 2, "2-event-loops").class_if(res["signalled"].as_u64().unwrap_or(0) > 0, "loop-poll-interrupted-by-signal").class_if(c.prelife != 0, "descriptor-number-had-a-previous-life")
}

pub fn main(args: &Args) -> i32 {
    if let Some(p) = &args.replay {
        let (_, _, case) = vkit::load_replay(p);
        return vkit::replay_verdict("C20", p, &exec(&serde_json::from_value(case).expect("case")));
    }
    let mut ev = Evidence::new("C20", args, "exploration");
    ev.assume("a write is judged only if it demonstrably landed inside the target's current 10 ms wait slice (between 1 and 8 ms after its last 'parked' event, no newer parking before the write)");
    ev.assume("one or two event loops, tasks on their own AF_UNIX socketpairs; a deviation counts only if it repeats in 3 of 3 fresh re-executions of the same case");
    ev.add(vkit::run_regress("C20", |_s, case| exec(&serde_json::from_value(case).expect("case"))));
    if ev.has_violations() {
        return ev.finish();
    }
    ev.add(vkit::run_prop(
        &RunCfg {
            property: "C20",
            sub: "readiness",
            rule: "fresh child per case: 1..2 event loops, 1..4 tasks blocked in hooked recv on own socketpairs, 1..3 writes to generated targets 1..6 ms after the target parked, optionally preceded by 1..3 no-op signals to every event-loop thread (interrupting its poll); non-trivial = >=2 waiters parked and >=1 write judged",
            seed: args.seed,
            cases: args.cases(600, 6_000),
            shards: 8,
            max_shrink_iters: 60,
        },
        strategy,
        exec,
    ));
    ev.finish()
}

//! C15, sub-run `burst`: many more sleepers than the local task queue holds.
//!
//! Case (fresh child, one event loop, default worker limit): a gate task computes on the loop
//! thread while `n` (300..900) tasks are submitted, each of which makes one hooked sleep of `d`
//! (2.5 s); then the gate opens. The local task queue holds 256 tasks, the rest of the burst
//! sits in the shared queue.
//! Oracle (structural, no time bound of its own): with enough workers N sleepers finish in
//! about `d`, i.e. they sleep *together*: every task has entered its sleep before the first
//! one has left it. A runtime that starts part of the burst only when earlier sleepers wake up
//! takes a multiple of `d` and shows tasks that began after the first end.

use open_coroutine_core::common::now;
use open_coroutine_core::config::Config;
use open_coroutine_core::net::EventLoops;
use open_coroutine_core::syscall as hooked;
use proptest::prelude::*;
use serde::{Deserialize, Serialize};
use serde_json::json;
use std::sync::atomic::{AtomicBool, AtomicU64, Ordering};
use std::sync::Arc;
use std::time::{Duration, Instant};
use vkit::child::{self, ChildSpec, End};
use vkit::Outcome;

#[derive(Debug, Clone, Serialize, Deserialize)]
pub struct Case {
    pub n: u16,
    /// false: usleep, true: nanosleep
    pub nanosleep: bool,
    /// spread the submissions over that many ms (0 = as fast as possible)
    pub spread_ms: u8,
}

pub const SLEEP_MS: u64 = 2_500;

pub fn strategy() -> impl Strategy<Value = Case> {
    (prop_oneof![1 => 200u16..257, 4 => 300u16..900], any::<bool>(), prop_oneof![2 => Just(0u8), 1 => 1u8..40]).prop_map(|(n, nanosleep, spread_ms)| Case { n, nanosleep, spread_ms })
}

pub fn child_main() -> i32 {
    let c: Case = serde_json::from_value(child::read_stdin_json()).expect("case");
    let n = usize::from(c.n);
    let mut cfg = Config::single();
    cfg.set_hook(false);
    EventLoops::init(&cfg);
    let open = Arc::new(AtomicBool::new(false));
    let gate_running = Arc::new(AtomicBool::new(false));
    let (o2, g2) = (open.clone(), gate_running.clone());
    let gate = EventLoops::submit_task(
        Some("c15-burst-gate".into()),
        move |_| {
            g2.store(true, Ordering::SeqCst);
            let t = Instant::now();
            while !o2.load(Ordering::SeqCst) && t.elapsed() < Duration::from_secs(5) {
                std::hint::spin_loop();
            }
            Some(0)
        },
        None,
        None,
    );
    let t = Instant::now();
    while !gate_running.load(Ordering::SeqCst) && t.elapsed() < Duration::from_secs(5) {
        std::thread::sleep(Duration::from_micros(200));
    }
    let begun: Arc<Vec<AtomicU64>> = Arc::new((0..n).map(|_| AtomicU64::new(0)).collect());
    let ended: Arc<Vec<AtomicU64>> = Arc::new((0..n).map(|_| AtomicU64::new(0)).collect());
    let mut keep = vec![];
    let t_sub = Instant::now();
    for i in 0..n {
        let (b, e, ns) = (begun.clone(), ended.clone(), c.nanosleep);
        keep.push(EventLoops::submit_task(
            Some(format!("c15-burst-{i}")),
            move |_| {
                b[i].store(now(), Ordering::SeqCst);
                if ns {
                    let ts = libc::timespec { tv_sec: (SLEEP_MS / 1000) as i64, tv_nsec: ((SLEEP_MS % 1000) * 1_000_000) as i64 };
                    let _ = hooked::nanosleep(None, &ts, std::ptr::null_mut());
                } else {
                    let _ = hooked::usleep(None, (SLEEP_MS * 1000) as u32);
                }
                e[i].store(now(), Ordering::SeqCst);
                Some(i)
            },
            None,
            None,
        ));
        if c.spread_ms > 0 {
            let due = Duration::from_micros(u64::from(c.spread_ms) * 1000 * (i as u64 + 1) / n as u64);
            while t_sub.elapsed() < due {
                std::hint::spin_loop();
            }
        }
    }
    let released = now();
    open.store(true, Ordering::SeqCst);
    let t = Instant::now();
    while t.elapsed() < Duration::from_secs(20) && ended.iter().any(|e| e.load(Ordering::SeqCst) == 0) {
        std::thread::sleep(Duration::from_millis(5));
    }
    let b: Vec<String> = begun.iter().map(|x| x.load(Ordering::SeqCst).to_string()).collect();
    let e: Vec<String> = ended.iter().map(|x| x.load(Ordering::SeqCst).to_string()).collect();
    child::emit(json!({"ev":"result","released":released.to_string(),"begun":b,"ended":e,"host_calm":vkit::timing::host_calm()}));
    let _ = (keep, gate);
    unsafe { libc::_exit(0) }
}

fn u(v: &serde_json::Value) -> u64 {
    v.as_str().and_then(|s| s.parse().ok()).unwrap_or(0)
}

pub fn exec_once(c: &Case) -> Outcome {
    let js = serde_json::to_string(c).unwrap();
    let r = child::run_child(&ChildSpec { args: vec!["C15burstchild".into()], stdin: &js, timeout: Duration::from_secs(40), env: vec![] });
    let mut o = Outcome::pass();
    o.nontrivial = c.n > 256;
    o = o.class_if(c.n > 256, "burst-exceeds-the-local-task-queue").class_if(c.n > 512, "burst-exceeds-twice-the-local-task-queue").class_if(c.spread_ms > 0, "submissions-spread-over-time");
    match &r.end {
        End::Exit(0) => {}
        End::Signal(sig) => {
            o.set_fail(format!("C15/burst/process-killed-by-signal-{sig}"), format!("the process died; {}", r.stderr_tail.lines().rev().take(2).collect::<Vec<_>>().join(" | ")));
            return o;
        }
        End::Deadline { .. } => {
            o.set_fail("C15/burst/sleepers-never-finished", format!("{} tasks each sleeping {SLEEP_MS} ms were not all done 40 s after the start", c.n));
            return o;
        }
        End::Exit(_) => {
            o.excluded = Some("child-exited-nonzero");
            return o;
        }
    }
    let Some(res) = r.result() else {
        o.excluded = Some("child-gave-no-result");
        return o;
    };
    let begun: Vec<u64> = res["begun"].as_array().map(|a| a.iter().map(u).collect()).unwrap_or_default();
    let ended: Vec<u64> = res["ended"].as_array().map(|a| a.iter().map(u).collect()).unwrap_or_default();
    let released = u(&res["released"]);
    let unfinished = ended.iter().filter(|e| **e == 0).count();
    let first_end = ended.iter().copied().filter(|e| *e != 0).min().unwrap_or(u64::MAX);
    let late: Vec<usize> = begun.iter().enumerate().filter(|(_, b)| **b == 0 || **b > first_end).map(|x| x.0).collect();
    if !late.is_empty() || unfinished > 0 {
        let last_begin = begun.iter().copied().max().unwrap_or(0);
        o.set_fail(
            "C15/burst/sleepers-started-only-after-others-had-finished",
            format!(
                "{} tasks each make one hooked sleep of {SLEEP_MS} ms; {} of them entered their sleep only after the first sleeper had left it (or never: {unfinished} unfinished after 20 s); the last one began {} ms after the burst was released, the first one ended after {} ms",
                c.n,
                late.len(),
                last_begin.saturating_sub(released) / 1_000_000,
                first_end.saturating_sub(released) / 1_000_000
            ),
        );
    }
    o
}

pub fn exec(c: &Case) -> Outcome {
    vkit::timing::confirm_repeat(exec_once(c), |s| s.ends_with("had-finished") || s.ends_with("never-finished"), || exec_once(c), 2)
}

//! C22 — preemption interrupts long-running coroutines, never syscalls (binary built with
//! the `preemptive` feature of open-coroutine-core).
//!
//! Case (fresh child): 1..8 scheduler threads, each with 2..4 coroutines out of
//! {Busy(ms) = a checksum over a fixed number of iterations worth about ms of CPU, never
//! yielding; YieldThenBusy / SectionThenBusy = the same after a few quick yields or a short
//! system call section (the coroutine leaves Running and is back within the slice); Yielding(n) = n voluntary yields; SyscallBusy(ms) = the same computation after
//! entering a system call state}.
//! Oracle:
//!  * every coroutine completes with the value the same function yields when called
//!    sequentially afterwards (an `Error` result or another value = preemption changed it);
//!  * a Busy coroutine of >= 100 ms is suspended at least once although it never yields
//!    (the monitor's slice is 10 ms);
//!  * a coroutine in a system call state is never suspended (no Syscall -> Suspend record),
//!    and no other coroutine is resumed on its thread between its entering and leaving that state;
//!  * the process survives.

use open_coroutine_core::common::constants::{CoroutineState, SyscallName, SyscallState};
use open_coroutine_core::common::now;
use open_coroutine_core::coroutine::listener::Listener;
use open_coroutine_core::coroutine::local::CoroutineLocal;
use open_coroutine_core::scheduler::{SchedulableCoroutine, SchedulableCoroutineState, Scheduler};
use proptest::prelude::*;
use serde::{Deserialize, Serialize};
use serde_json::json;
use std::sync::atomic::{AtomicU64, Ordering};
use std::sync::{Arc, Barrier};
use std::time::{Duration, Instant};
use vkit::child::{self, ChildSpec, End};
use vkit::{Args, Evidence, Outcome, RunCfg};

#[derive(Debug, Clone, Copy, Serialize, Deserialize, PartialEq)]
pub enum Co {
    Busy(u8),
    Yielding(u8),
    SyscallBusy(u8),
    /// yields n times in quick succession, then computes for ms without yielding
    YieldThenBusy(u8, u8),
    /// enters a system call state and leaves it again at once, then computes for ms
    SectionThenBusy(u8),
}

#[derive(Debug, Clone, Serialize, Deserialize)]
pub struct Case {
    pub threads: Vec<Vec<Co>>,
}

pub fn strategy() -> impl Strategy<Value = Case> {
    let co = prop_oneof![
        4 => (30u8..200).prop_map(Co::Busy),
        3 => (1u8..6).prop_map(Co::Yielding),
        2 => (30u8..120).prop_map(Co::SyscallBusy),
        2 => (1u8..5, 100u8..200).prop_map(|(n, ms)| Co::YieldThenBusy(n, ms)),
        2 => (100u8..200).prop_map(Co::SectionThenBusy),
    ];
    // most threads start with a long Busy coroutine (the shape the non-trivial rule asks for)
    proptest::collection::vec((proptest::option::weighted(0.75, (100u8..200).prop_map(Co::Busy)), proptest::collection::vec(co, 1..4)), 1..9).prop_map(|threads| Case {
        threads: threads
            .into_iter()
            .map(|(first, mut rest)| {
                if let Some(f) = first {
                    rest.insert(0, f);
                } else if rest.len() < 2 {
                    rest.push(Co::Yielding(2));
                }
                rest
            })
            .collect(),
    })
}

#[inline(never)]
fn checksum(iters: u64, seed: u64) -> u64 {
    let mut x = seed | 1;
    for i in 0..iters {
        x = x.wrapping_mul(6364136223846793005).wrapping_add(1442695040888963407) ^ (i >> 3);
    }
    std::hint::black_box(x)
}

#[derive(Default, Debug)]
struct Rec {
    sys_enter: AtomicU64,
    sys_leave: AtomicU64,
    sys_thread: AtomicU64,
    started: AtomicU64,
    ended: AtomicU64,
    running_to_suspend: AtomicU64,
    syscall_to_suspend: AtomicU64,
    value: AtomicU64,
}

#[derive(Debug)]
struct Recorder {
    recs: &'static [Rec],
}

/// (time, OS thread, coroutine index, 1 = resumed on this thread / 0 = left the CPU)
static EVENTS: std::sync::Mutex<Vec<(u64, u64, usize, u8)>> = std::sync::Mutex::new(Vec::new());
static FINISHED: AtomicU64 = AtomicU64::new(0);

fn os_thread() -> u64 {
    unsafe { libc::pthread_self() as u64 }
}

impl Listener<(), Option<usize>> for Recorder {
    fn on_state_changed(&self, local: &CoroutineLocal, old: SchedulableCoroutineState, new: SchedulableCoroutineState) {
        let Some(ix) = local.get::<usize>("c22-ix").copied() else { return };
        let Some(r) = self.recs.get(ix) else { return };
        match new {
            CoroutineState::Running if !matches!(old, CoroutineState::Syscall((), _, _)) => {
                if let Ok(mut e) = EVENTS.try_lock() {
                    e.push((now(), os_thread(), ix, 1));
                }
            }
            CoroutineState::Suspend((), _) | CoroutineState::Complete(_) | CoroutineState::Error(_) | CoroutineState::Cancelled => {
                if let Ok(mut e) = EVENTS.try_lock() {
                    e.push((now(), os_thread(), ix, 0));
                }
                if !matches!(new, CoroutineState::Suspend((), _)) {
                    FINISHED.fetch_add(1, Ordering::SeqCst);
                }
            }
            _ => {}
        }
        if let CoroutineState::Suspend((), _) = new {
            match old {
                CoroutineState::Running => _ = r.running_to_suspend.fetch_add(1, Ordering::SeqCst),
                CoroutineState::Syscall((), _, _) => _ = r.syscall_to_suspend.fetch_add(1, Ordering::SeqCst),
                _ => {}
            }
        }
    }
}

pub fn child_main() -> i32 {
    let case: Case = serde_json::from_value(child::read_stdin_json()).expect("case");
    if !cfg!(feature = "preemptive") {
        eprintln!("C22child needs the binary built with the preemptive feature");
        return 3;
    }
    // iterations per millisecond on this host
    let t = Instant::now();
    let _ = checksum(4_000_000, 1);
    let per_ms = (4_000_000f64 / (t.elapsed().as_secs_f64() * 1000.0)).max(1000.0) as u64;
    let total: usize = case.threads.iter().map(Vec::len).sum();
    let recs: &'static [Rec] = Box::leak((0..total).map(|_| Rec::default()).collect::<Vec<_>>().into_boxed_slice());
    let barrier = Arc::new(Barrier::new(case.threads.len()));
    let mut handles = vec![];
    let mut base = 0usize;
    let mut plan: Vec<(usize, usize, Co, u64)> = vec![]; // (thread, ix, kind, iters)
    for (ti, cos) in case.threads.iter().enumerate() {
        let cos = cos.clone();
        let barrier = barrier.clone();
        let my_base = base;
        for (k, c) in cos.iter().enumerate() {
            let iters = match c {
                Co::Busy(ms) | Co::SyscallBusy(ms) | Co::SectionThenBusy(ms) | Co::YieldThenBusy(_, ms) => u64::from(*ms) * per_ms,
                Co::Yielding(n) => u64::from(*n) * 1000,
            };
            plan.push((ti, my_base + k, *c, iters));
        }
        base += cos.len();
        handles.push(
            std::thread::Builder::new()
                .name(format!("c22-sched-{ti}"))
                .spawn(move || {
                    let mut s = Scheduler::new(format!("c22-{ti}"), 128 * 1024);
                    s.add_listener(Recorder { recs });
                    for (k, c) in cos.iter().copied().enumerate() {
                        let ix = my_base + k;
                        s.submit_co(
                            move |sus, ()| {
                                if let Some(co) = SchedulableCoroutine::current() {
                                    _ = co.put("c22-ix", ix);
                                }
                                recs[ix].started.store(now(), Ordering::SeqCst);
                                let v = match c {
                                    Co::Busy(ms) => checksum(u64::from(ms) * per_ms, ix as u64),
                                    Co::SyscallBusy(ms) => {
                                        if let Some(co) = SchedulableCoroutine::current() {
                                            co.syscall((), SyscallName::write, SyscallState::Executing).expect("enter syscall state");
                                        }
                                        recs[ix].sys_thread.store(os_thread(), Ordering::SeqCst);
                                        recs[ix].sys_enter.store(now(), Ordering::SeqCst);
                                        let v = checksum(u64::from(ms) * per_ms, ix as u64);
                                        recs[ix].sys_leave.store(now(), Ordering::SeqCst);
                                        if os_thread() != recs[ix].sys_thread.load(Ordering::SeqCst) {
                                            recs[ix].sys_thread.store(u64::MAX, Ordering::SeqCst);
                                        }
                                        if let Some(co) = SchedulableCoroutine::current() {
                                            co.running().expect("leave syscall state");
                                        }
                                        v
                                    }
                                    Co::Yielding(n) => {
                                        let mut v = ix as u64;
                                        for _ in 0..n {
                                            v = checksum(1000, v);
                                            sus.suspend();
                                        }
                                        v
                                    }
                                    Co::YieldThenBusy(n, ms) => {
                                        for _ in 0..n {
                                            sus.suspend();
                                        }
                                        checksum(u64::from(ms) * per_ms, ix as u64)
                                    }
                                    Co::SectionThenBusy(ms) => {
                                        if let Some(co) = SchedulableCoroutine::current() {
                                            co.syscall((), SyscallName::write, SyscallState::Executing).expect("enter syscall state");
                                            co.running().expect("leave syscall state");
                                        }
                                        checksum(u64::from(ms) * per_ms, ix as u64)
                                    }
                                };
                                recs[ix].value.store(v, Ordering::SeqCst);
                                recs[ix].ended.store(now(), Ordering::SeqCst);
                                Some(ix)
                            },
                            None,
                            None,
                        )
                        .expect("submit");
                    }
                    barrier.wait();
                    let mut results: Vec<(u64, String)> = vec![];
                    let t = Instant::now();
                    let mut done = 0;
                    // coroutines are stolen between the scheduler threads: everybody keeps
                    // scheduling until all coroutines of the case have finished
                    while (FINISHED.load(Ordering::SeqCst) as usize) < total && t.elapsed() < Duration::from_secs(20) {
                        match s.try_timed_schedule(Duration::from_millis(5)) {
                            Ok((_, r)) => {
                                for (id, v) in r {
                                    done += 1;
                                    results.push((id, format!("{v:?}")));
                                }
                            }
                            Err(e) => {
                                results.push((0, format!("schedule error {e}")));
                                break;
                            }
                        }
                    }
                    let _ = done;
                    // the scheduler asserts emptiness on drop; leave it alone if work is left
                    if (FINISHED.load(Ordering::SeqCst) as usize) < total {
                        std::mem::forget(s);
                    }
                    results
                })
                .expect("spawn"),
        );
    }
    let mut outs = vec![];
    for h in handles {
        outs.push(h.join().map_err(|_| "scheduler thread panicked".to_string()));
    }
    // sequential reference values
    let mut cos_json = vec![];
    for (ti, ix, c, iters) in &plan {
        let want = match c {
            Co::Busy(_) | Co::SyscallBusy(_) | Co::YieldThenBusy(_, _) | Co::SectionThenBusy(_) => checksum(*iters, *ix as u64),
            Co::Yielding(n) => {
                let mut v = *ix as u64;
                for _ in 0..*n {
                    v = checksum(1000, v);
                }
                v
            }
        };
        let r = &recs[*ix];
        cos_json.push(json!({"thread":ti,"ix":ix,"kind":c,"want":want.to_string(),"got":r.value.load(Ordering::SeqCst).to_string(),
            "started":r.started.load(Ordering::SeqCst).to_string(),"ended":r.ended.load(Ordering::SeqCst).to_string(),
            "sys_enter":r.sys_enter.load(Ordering::SeqCst).to_string(),"sys_leave":r.sys_leave.load(Ordering::SeqCst).to_string(),"sys_thread":r.sys_thread.load(Ordering::SeqCst).to_string(),
            "r2s":r.running_to_suspend.load(Ordering::SeqCst),"s2s":r.syscall_to_suspend.load(Ordering::SeqCst)}));
    }
    let outs_json: Vec<serde_json::Value> = outs.iter().map(|o| match o { Ok(v) => json!(v), Err(e) => json!(e) }).collect();
    let events: Vec<serde_json::Value> = EVENTS.lock().unwrap().iter().map(|e| json!([e.0.to_string(), e.1.to_string(), e.2, e.3])).collect();
    child::emit(json!({"ev":"result","cos":cos_json,"threads":outs_json,"per_ms":per_ms,"events":events}));
    unsafe { libc::_exit(0) }
}

fn u(v: &serde_json::Value) -> u64 {
    v.as_str().and_then(|s| s.parse().ok()).unwrap_or(0)
}

pub fn exec_once(c: &Case) -> Outcome {
    let js = serde_json::to_string(c).unwrap();
    let r = child::run_child(&ChildSpec { args: vec!["C22child".into()], stdin: &js, timeout: Duration::from_secs(60), env: vec![] });
    let mut o = Outcome::pass();
    let t = c.threads.len();
    o.nontrivial = t >= 4 && c.threads.iter().all(|cs| cs.iter().any(|x| matches!(x, Co::Busy(_))));
    o = o
        .class_if(t >= 4, "4+scheduler-threads")
        .class_if(c.threads.iter().any(|cs| cs.iter().any(|x| matches!(x, Co::SyscallBusy(_)))), "has-syscall-state-busy")
        .class_if(c.threads.iter().any(|cs| cs.iter().any(|x| matches!(x, Co::Busy(ms) if *ms >= 100))), "has-busy>=100ms")
        .class_if(c.threads.iter().any(|cs| cs.iter().any(|x| matches!(x, Co::YieldThenBusy(..) | Co::SectionThenBusy(_)))), "busy-after-a-quick-return-to-running");
    match &r.end {
        End::Exit(0) => {}
        End::Exit(3) => {
            o.excluded = Some("binary-built-without-preemptive");
            return o;
        }
        End::Signal(sig) => {
            // with two or more scheduler threads a preempted coroutine can be stolen and resumed by
            // another thread in the middle of any function (listed known finding, DESIGN 11.4)
            let fam = if t >= 2 && *sig == 11 { "C22/2+threads" } else { "C22" };
            o.set_fail(format!("{fam}/process-killed-by-signal-{sig}"), format!("{t} scheduler threads: the process died (signal {sig}); {}", r.stderr_tail.lines().rev().take(3).collect::<Vec<_>>().join(" | ")));
            return o;
        }
        End::Deadline { .. } => {
            o.excluded = Some("child-hung");
            return o;
        }
        End::Exit(_) => {
            o.excluded = Some("child-exited-nonzero");
            return o;
        }
    }
    let Some(res) = r.result() else {
        o.excluded = Some("child-gave-no-result");
        return o;
    };
    let cos = res["cos"].as_array().cloned().unwrap_or_default();
    // per-thread scheduler outcomes: any Err(...) result string is a changed result
    for (ti, th) in res["threads"].as_array().cloned().unwrap_or_default().iter().enumerate() {
        if let Some(s) = th.as_str() {
            o.set_fail("C22/scheduler-thread-died", format!("scheduler thread {ti}: {s}"));
            return o;
        }
        for x in th.as_array().cloned().unwrap_or_default() {
            let s = x[1].as_str().unwrap_or("");
            if s.starts_with("Err(") || s.starts_with("schedule error") {
                let foreign_state = t >= 2 && s.contains("unexpected ") && s.contains("->Syscall((), write, Executing)");
                let sig = if foreign_state { "C22/2+threads/coroutine-entered-its-system-call-section-in-the-state-of-another-coroutine" } else { "C22/coroutine-ended-with-an-error" };
                o.set_fail(sig, format!("scheduler thread {ti}: a coroutine's result is {s} (its body neither panics nor faults)"));
                return o;
            }
        }
    }
    for x in &cos {
        let (want, got, ended) = (u(&x["want"]), u(&x["got"]), u(&x["ended"]));
        if ended == 0 {
            o.set_fail("C22/coroutine-never-finished", format!("coroutine {} ({}) on thread {} never finished within 20 s", x["ix"], x["kind"], x["thread"]));
            return o;
        }
        if want != got {
            o.set_fail("C22/computed-result-changed", format!("coroutine {} ({}) computed {got}, the same function called sequentially gives {want}", x["ix"], x["kind"]));
            return o;
        }
        if x["s2s"].as_u64().unwrap_or(0) > 0 {
            o.set_fail("C22/coroutine-in-syscall-state-was-preempted", format!("coroutine {} ({}) was suspended {} time(s) while in a system call state", x["ix"], x["kind"], x["s2s"]));
            return o;
        }
    }
    // events: (time, OS thread, coroutine, resumed?)
    let events: Vec<(u64, u64, usize, u8)> = res["events"].as_array().map(|a| a.iter().map(|e| (u(&e[0]), u(&e[1]), e[2].as_u64().unwrap_or(0) as usize, e[3].as_u64().unwrap_or(0) as u8)).collect()).unwrap_or_default();
    for a in &cos {
        let kind: Co = serde_json::from_value(a["kind"].clone()).unwrap_or(Co::Yielding(0));
        let ix = a["ix"].as_u64().unwrap_or(0) as usize;
        match kind {
            Co::Busy(ms) if ms >= 100 => {
                // the monitor suspends whatever runs for longer than its 10 ms slice
                let r2s = a["r2s"].as_u64().unwrap_or(0);
                if r2s == 0 {
                    o.set_fail(
                        "C22/long-running-coroutine-not-preempted",
                        format!("coroutine {ix} (Busy {ms} ms, ran from start to end in {} ms) never yields and was never suspended", (u(&a["ended"]) - u(&a["started"])) / 1_000_000),
                    );
                    return o;
                }
            }
            Co::YieldThenBusy(n, ms) => {
                // its own n yields are suspensions too; the busy phase needs at least one more
                let r2s = a["r2s"].as_u64().unwrap_or(0);
                if r2s <= u64::from(n) {
                    o.set_fail(
                        "C22/long-running-coroutine-not-preempted",
                        format!("coroutine {ix} yields {n} times and then computes for {ms} ms without yielding; it was suspended {r2s} time(s) in all, i.e. never during its busy phase"),
                    );
                    return o;
                }
            }
            Co::SectionThenBusy(ms) => {
                let r2s = a["r2s"].as_u64().unwrap_or(0);
                if r2s == 0 {
                    o.set_fail(
                        "C22/long-running-coroutine-not-preempted",
                        format!("coroutine {ix} passes through a short system call section and then computes for {ms} ms without yielding; it was never suspended"),
                    );
                    return o;
                }
            }
            Co::SyscallBusy(ms) => {
                let (enter, leave, th) = (u(&a["sys_enter"]), u(&a["sys_leave"]), u(&a["sys_thread"]));
                if th == u64::MAX {
                    o.set_fail("C22/coroutine-in-syscall-state-was-interrupted", format!("coroutine {ix} (SyscallBusy {ms} ms) entered its system call state on one thread and left it on another"));
                    return o;
                }
                if let Some(e) = events.iter().find(|e| e.1 == th && e.2 != ix && e.3 == 1 && e.0 > enter && e.0 < leave) {
                    o.set_fail(
                        "C22/coroutine-in-syscall-state-was-interrupted",
                        format!("coroutine {ix} (SyscallBusy {ms} ms) was in a system call state for {} ms; coroutine {} was resumed on the same thread {} ms after it had entered that state", (leave - enter) / 1_000_000, e.2, (e.0 - enter) / 1_000_000),
                    );
                    return o;
                }
            }
            _ => {}
        }
    }
    o
}

pub fn exec(c: &Case) -> Outcome {
    vkit::timing::confirm_repeat(exec_once(c), |s| s.ends_with("not-preempted") || s.ends_with("never-finished"), || exec_once(c), 2)
}

pub fn main(args: &Args) -> i32 {
    if !cfg!(feature = "preemptive") {
        eprintln!("[C22] INCONCLUSIVE: this binary was built without the preemptive feature");
        return 2;
    }
    if let Some(p) = &args.replay {
        let (_, _, case) = vkit::load_replay(p);
        let c: Case = serde_json::from_value(case).expect("case");
        let mut last = Outcome::pass();
        for _ in 0..10 {
            last = exec(&c);
            if last.fail.is_some() {
                break;
            }
        }
        return vkit::replay_verdict("C22", p, &last);
    }
    let mut ev = Evidence::new("C22", args, "exploration");
    ev.assume("Busy bodies run a fixed number of iterations calibrated to the host (iterations per ms measured at child start); the reference value is the same function called sequentially afterwards");
    ev.assume("'not preempted' is judged only for Busy >= 100 ms (10x the 10 ms slice) with a sibling that started later, and confirmed by 2 re-executions; a hung child is excluded (counted), not reported");
    ev.assume("the unsynchronised monitor node set is attacked only by running up to 8 scheduler threads at once (probabilistic)");
    ev.add(vkit::run_regress("C22", |_s, case| exec(&serde_json::from_value(case).expect("case"))));
    if ev.has_violations() {
        return ev.finish();
    }
    ev.add(vkit::run_prop(
        &RunCfg {
            property: "C22",
            sub: "preemption",
            rule: "fresh child per case: 1..8 scheduler threads x 2..4 coroutines out of Busy(30..200 ms), Yielding(1..5), SyscallBusy(30..120 ms), YieldThenBusy(1..4 yields, 100..200 ms), SectionThenBusy(100..200 ms); non-trivial = >= 4 threads each with a Busy coroutine",
            seed: args.seed,
            cases: args.cases(120, 2_000),
            shards: 4,
            max_shrink_iters: 30,
        },
        strategy,
        exec,
    ));
    ev.finish()
}

//! C25 — coroutine-local storage is private, map-like, and released with the coroutine.
//!
//! Case: a history of put / get / get_mut(+write) / remove / drop-coroutine over 3 real
//! coroutines × 4 keys; values are drop-counting tokens.
//! Oracle: a per-coroutine HashMap model for every return value; a key of one coroutine is
//! never visible through another; every token is dropped exactly when the model says its
//! owner gave it up (overwritten-and-returned, removed, or still stored when the coroutine is
//! dropped) — never twice, and none is leaked by dropping the coroutine.

use open_coroutine_core::coroutine::suspender::Suspender;
use open_coroutine_core::coroutine::Coroutine;
use proptest::prelude::*;
use serde::{Deserialize, Serialize};
use std::collections::HashMap;
use std::sync::atomic::{AtomicU32, Ordering};
use std::sync::Arc;
use vkit::{Args, Evidence, Outcome, RunCfg};

const KEYS: [&str; 4] = ["a", "b", "key-c", ""];

#[derive(Debug, Clone, Copy, Serialize, Deserialize)]
pub enum Op {
    Put { c: u8, k: u8 },
    Get { c: u8, k: u8 },
    GetMutWrite { c: u8, k: u8 },
    Remove { c: u8, k: u8 },
    DropCo { c: u8 },
    /// store / remove a value of another shape under a key space of its own:
    /// shape 0 = zero-sized guard with a destructor, shape 1 = 128-byte, 16-aligned value
    PutShape { c: u8, k: u8, shape: u8 },
    RemoveShape { c: u8, k: u8, shape: u8 },
}

#[derive(Debug, Clone, Serialize, Deserialize)]
pub struct Case {
    pub ops: Vec<Op>,
}

pub fn strategy() -> impl Strategy<Value = Case> {
    proptest::collection::vec(
        prop_oneof![
            6 => (0u8..3, 0u8..4).prop_map(|(c, k)| Op::Put { c, k }),
            4 => (0u8..3, 0u8..4).prop_map(|(c, k)| Op::Get { c, k }),
            2 => (0u8..3, 0u8..4).prop_map(|(c, k)| Op::GetMutWrite { c, k }),
            3 => (0u8..3, 0u8..4).prop_map(|(c, k)| Op::Remove { c, k }),
            1 => (0u8..3).prop_map(|c| Op::DropCo { c }),
            3 => (0u8..3, 0u8..2, 0u8..2).prop_map(|(c, k, shape)| Op::PutShape { c, k, shape }),
            1 => (0u8..3, 0u8..2, 0u8..2).prop_map(|(c, k, shape)| Op::RemoveShape { c, k, shape }),
        ],
        0..60,
    )
    .prop_map(|ops| Case { ops })
}

/// a value whose drops are counted per id
struct Tok {
    id: u32,
    payload: u64,
    drops: Arc<Vec<AtomicU32>>,
}
impl Drop for Tok {
    fn drop(&mut self) {
        self.drops[self.id as usize].fetch_add(1, Ordering::SeqCst);
    }
}

thread_local! {
    /// destructor runs of the zero-sized guard / the wide value on this thread
    static SHAPE_DROPS: std::cell::Cell<[u32; 2]> = const { std::cell::Cell::new([0, 0]) };
}

/// zero-sized, but with a destructor
struct Guard;
impl Drop for Guard {
    fn drop(&mut self) {
        SHAPE_DROPS.with(|d| {
            let mut v = d.get();
            v[0] += 1;
            d.set(v);
        });
    }
}

/// large and over-aligned
#[repr(align(16))]
#[allow(dead_code)]
struct Wide([u64; 16]);
impl Drop for Wide {
    fn drop(&mut self) {
        SHAPE_DROPS.with(|d| {
            let mut v = d.get();
            v[1] += 1;
            d.set(v);
        });
    }
}

const SHAPE_KEYS: [[&str; 2]; 2] = [["guard-0", "guard-1"], ["wide-0", "wide-1"]];

type Co = Coroutine<'static, (), (), Option<usize>>;

pub fn exec(c: &Case) -> Outcome {
    let n_tok = c.ops.len() + 1;
    let drops: Arc<Vec<AtomicU32>> = Arc::new((0..n_tok).map(|_| AtomicU32::new(0)).collect());
    let mk = |i: usize| -> Co {
        Coroutine::new(Some(format!("c25-{i}")), |_: &Suspender<(), ()>, ()| None, Some(16 * 1024), None).expect("create")
    };
    let mut cos: Vec<Option<Co>> = (0..3).map(|i| Some(mk(i))).collect();
    // model: per coroutine key -> (token id, payload)
    let mut model: Vec<HashMap<u8, (u32, u64)>> = vec![HashMap::new(); 3];
    let mut expect_dropped: Vec<bool> = vec![false; n_tok];
    let mut next = 0u32;
    let mut o = Outcome::pass();
    let (mut overwrites, mut removes, mut drops_with_live) = (0, 0, 0);
    // other shapes: model[c][shape][k] = stored?, and the number of destructor runs due
    SHAPE_DROPS.with(|d| d.set([0, 0]));
    let mut shapes = [[[false; 2]; 2]; 3];
    let mut shape_due = [0u32; 2];
    let mut zst_dropped_with_co = 0;
    let check_drops = |expect: &Vec<bool>, o: &mut Outcome, at: &str| {
        for (id, e) in expect.iter().enumerate() {
            let d = drops[id].load(Ordering::SeqCst);
            if d > 1 {
                o.set_fail("C25/value-dropped-twice", format!("{at}: token {id} dropped {d} times"));
            } else if d == 1 && !*e {
                o.set_fail("C25/value-dropped-while-still-stored", format!("{at}: token {id} was dropped although it is still stored"));
            } else if d == 0 && *e {
                o.set_fail("C25/value-not-dropped", format!("{at}: token {id} should have been dropped by now"));
            }
        }
    };
    for (i, op) in c.ops.iter().enumerate() {
        if o.fail.is_some() {
            break;
        }
        match *op {
            Op::Put { c: ci, k } => {
                let Some(co) = &cos[ci as usize] else { continue };
                let id = next;
                next += 1;
                let payload = u64::from(id) * 7 + 1;
                let old = co.put(KEYS[k as usize], Tok { id, payload, drops: drops.clone() });
                let want = model[ci as usize].insert(k, (id, payload));
                match (&old, want) {
                    (None, None) => {}
                    (Some(t), Some((wid, wp))) if t.id == wid && t.payload == wp => overwrites += 1,
                    _ => o.set_fail(
                        "C25/put-returned-wrong-previous-value",
                        format!("op {i}: put on coroutine {ci} key {k}: returned {:?}, model says {want:?}", old.as_ref().map(|t| (t.id, t.payload))),
                    ),
                }
                if let Some(t) = old {
                    let tid = t.id as usize;
                    drop(t);
                    expect_dropped[tid] = true;
                }
                // privacy: the other coroutines must not see this key unless they stored it themselves
                for other in 0..3usize {
                    if other == ci as usize {
                        continue;
                    }
                    if let Some(oc) = &cos[other] {
                        let seen = oc.get::<Tok>(KEYS[k as usize]).map(|t| t.id);
                        let want = model[other].get(&k).map(|x| x.0);
                        if seen != want {
                            o.set_fail(
                                "C25/value-visible-through-another-coroutine",
                                format!("op {i}: after a put on coroutine {ci} key {k}, coroutine {other} sees {seen:?}, model says {want:?}"),
                            );
                        }
                    }
                }
            }
            Op::Get { c: ci, k } => {
                let Some(co) = &cos[ci as usize] else { continue };
                let got = co.get::<Tok>(KEYS[k as usize]).map(|t| (t.id, t.payload));
                let want = model[ci as usize].get(&k).copied();
                if got != want {
                    o.set_fail("C25/get-returned-wrong-value", format!("op {i}: get coroutine {ci} key {k}: {got:?}, model {want:?}"));
                }
            }
            Op::GetMutWrite { c: ci, k } => {
                let Some(co) = &cos[ci as usize] else { continue };
                let got = co.get_mut::<Tok>(KEYS[k as usize]);
                let want = model[ci as usize].get_mut(&k);
                match (got, want) {
                    (None, None) => {}
                    (Some(t), Some(w)) if t.id == w.0 && t.payload == w.1 => {
                        t.payload = t.payload.wrapping_mul(31).wrapping_add(i as u64);
                        w.1 = t.payload;
                    }
                    (g, w) => o.set_fail(
                        "C25/get-mut-returned-wrong-value",
                        format!("op {i}: get_mut coroutine {ci} key {k}: {:?}, model {w:?}", g.map(|t| (t.id, t.payload))),
                    ),
                }
            }
            Op::Remove { c: ci, k } => {
                let Some(co) = &cos[ci as usize] else { continue };
                let got = co.remove::<Tok>(KEYS[k as usize]);
                let want = model[ci as usize].remove(&k);
                match (&got, want) {
                    (None, None) => {}
                    (Some(t), Some((wid, wp))) if t.id == wid && t.payload == wp => removes += 1,
                    _ => o.set_fail(
                        "C25/remove-returned-wrong-value",
                        format!("op {i}: remove coroutine {ci} key {k}: {:?}, model {want:?}", got.as_ref().map(|t| (t.id, t.payload))),
                    ),
                }
                if let Some(t) = got {
                    let tid = t.id as usize;
                    drop(t);
                    expect_dropped[tid] = true;
                }
                if co.get::<Tok>(KEYS[k as usize]).is_some() {
                    o.set_fail("C25/remove-did-not-delete-the-key", format!("op {i}: key {k} still readable on coroutine {ci}"));
                }
            }
            Op::PutShape { c: ci, k, shape } => {
                let Some(co) = &cos[ci as usize] else { continue };
                let (sh, k) = (usize::from(shape % 2), usize::from(k % 2));
                let had = if sh == 0 { co.put(SHAPE_KEYS[0][k], Guard).is_some() } else { co.put(SHAPE_KEYS[1][k], Wide([i as u64; 16])).is_some() };
                if had != shapes[ci as usize][sh][k] {
                    o.set_fail("C25/put-returned-wrong-previous-value", format!("op {i}: put (shape {sh}) on coroutine {ci} key {k}: previous value present = {had}, model says {}", shapes[ci as usize][sh][k]));
                }
                if had {
                    // the returned previous value was dropped by the harness just now
                    shape_due[sh] += 1;
                }
                shapes[ci as usize][sh][k] = true;
            }
            Op::RemoveShape { c: ci, k, shape } => {
                let Some(co) = &cos[ci as usize] else { continue };
                let (sh, k) = (usize::from(shape % 2), usize::from(k % 2));
                let had = if sh == 0 { co.remove::<Guard>(SHAPE_KEYS[0][k]).is_some() } else { co.remove::<Wide>(SHAPE_KEYS[1][k]).is_some() };
                if had != shapes[ci as usize][sh][k] {
                    o.set_fail("C25/remove-returned-wrong-value", format!("op {i}: remove (shape {sh}) on coroutine {ci} key {k}: value present = {had}, model says {}", shapes[ci as usize][sh][k]));
                }
                if had {
                    shape_due[sh] += 1;
                }
                shapes[ci as usize][sh][k] = false;
            }
            Op::DropCo { c: ci } => {
                if let Some(co) = cos[ci as usize].take() {
                    for sh in 0..2 {
                        for k in 0..2 {
                            if shapes[ci as usize][sh][k] {
                                shape_due[sh] += 1;
                                shapes[ci as usize][sh][k] = false;
                                if sh == 0 {
                                    zst_dropped_with_co += 1;
                                }
                            }
                        }
                    }
                    let live: Vec<u32> = model[ci as usize].values().map(|x| x.0).collect();
                    if !live.is_empty() {
                        drops_with_live += 1;
                    }
                    drop(co);
                    for id in live {
                        expect_dropped[id as usize] = true;
                    }
                    model[ci as usize].clear();
                    let mut o2 = Outcome::pass();
                    check_drops(&expect_dropped, &mut o2, &format!("op {i}: after dropping coroutine {ci}"));
                    if let Some((sig, msg)) = o2.fail {
                        let sig = if sig == "C25/value-not-dropped" { "C25/values-not-dropped-with-the-coroutine".to_string() } else { sig };
                        o.set_fail(sig, msg);
                    }
                }
            }
        }
        if o.fail.is_none() {
            check_drops(&expect_dropped, &mut o, &format!("after op {i}"));
        }
        if o.fail.is_none() {
            let got = SHAPE_DROPS.with(std::cell::Cell::get);
            for sh in 0..2 {
                if got[sh] != shape_due[sh] {
                    let what = ["zero-sized guard values", "128-byte 16-aligned values"][sh];
                    let sig = if got[sh] < shape_due[sh] {
                        if matches!(op, Op::DropCo { .. }) { "C25/values-not-dropped-with-the-coroutine" } else { "C25/value-not-dropped" }
                    } else {
                        "C25/value-dropped-while-still-stored"
                    };
                    o.set_fail(sig, format!("after op {i} {op:?}: destructors of {what} ran {} times, {} were due", got[sh], shape_due[sh]));
                }
            }
        }
    }
    // release what is left through the API so that the harness itself leaks nothing
    for (ci, co) in cos.iter().enumerate() {
        if let Some(co) = co {
            for k in model[ci].keys() {
                drop(co.remove::<Tok>(KEYS[*k as usize]));
            }
            for k in 0..2 {
                drop(co.remove::<Guard>(SHAPE_KEYS[0][k]));
                drop(co.remove::<Wide>(SHAPE_KEYS[1][k]));
            }
        }
    }
    o.nontrivial = overwrites >= 1 && removes >= 1 && drops_with_live >= 1;
    o.class_if(overwrites >= 1, "overwrite")
        .class_if(removes >= 1, "remove")
        .class_if(drops_with_live >= 1, "coroutine-dropped-with-live-values")
        .class_if(zst_dropped_with_co >= 1, "coroutine-dropped-with-a-live-zero-sized-value")
}

pub fn main(args: &Args) -> i32 {
    if let Some(p) = &args.replay {
        let (_, _, case) = vkit::load_replay(p);
        return vkit::replay_verdict("C25", p, &exec(&serde_json::from_value(case).expect("case")));
    }
    let mut ev = Evidence::new("C25", args, "exploration");
    ev.assume("every key is always used with one value type (reading a key with another type is undefined by construction of the API)");
    ev.add(vkit::run_regress("C25", |_s, case| exec(&serde_json::from_value(case).expect("case"))));
    if ev.has_violations() {
        return ev.finish();
    }
    ev.add(vkit::run_prop(
        &RunCfg {
            property: "C25",
            sub: "local",
            rule: "histories of put/get/get_mut+write/remove/drop-coroutine over 3 coroutines x 4 keys with drop-counting values against a HashMap model; non-trivial = >=1 overwrite, >=1 remove and >=1 coroutine dropped while it still stores values",
            seed: args.seed,
            cases: args.cases(8_000, 300_000),
            shards: 8,
            max_shrink_iters: 4000,
        },
        strategy,
        exec,
    ));
    ev.finish()
}

//! C19 — socket timeout options are tracked per live socket without crashing.
//!
//! Case: a history over 3 socket slots of {SetRcv(tv), SetSnd(tv), Io, Close, Reopen};
//! everything goes through the hooked entry points (`setsockopt`, `send`/`recv`, `close`)
//! with the real libc functions behind them. Executed in a fresh child process per history
//! because an abort is a possible outcome; the child logs `start k` / `done k` so that a
//! crash is attributed to one op.
//! Oracle (differential against ground truth): after every op, for every live socket,
//! `recv_time_limit(fd)` / `send_time_limit(fd)` equal the kernel's own `getsockopt` value
//! converted to nanoseconds (0 => u64::MAX); the child survives every history.

use libc::{c_int, c_void, socklen_t, timeval};
use open_coroutine_core::syscall as hooked;
use proptest::prelude::*;
use serde::{Deserialize, Serialize};
use serde_json::json;
use std::time::Duration;
use vkit::child::{self, ChildSpec, End};
use vkit::{Args, Evidence, Outcome, RunCfg};

#[derive(Debug, Clone, Copy, Serialize, Deserialize, PartialEq)]
pub enum Op {
    /// timeout in units of 20 ms (0 = none)
    SetRcv { s: u8, t: u8 },
    SetSnd { s: u8, t: u8 },
    Io { s: u8 },
    Close { s: u8 },
    Reopen { s: u8 },
}

#[derive(Debug, Clone, Serialize, Deserialize)]
pub struct Case {
    pub ops: Vec<Op>,
}

pub fn strategy() -> impl Strategy<Value = Case> {
    let t = prop_oneof![2 => Just(0u8), 3 => 1u8..6, 1 => Just(50u8), 1 => Just(250u8)];
    proptest::collection::vec(
        prop_oneof![
            4 => (0u8..3, t.clone()).prop_map(|(s, t)| Op::SetRcv { s, t }),
            3 => (0u8..3, t).prop_map(|(s, t)| Op::SetSnd { s, t }),
            3 => (0u8..3).prop_map(|s| Op::Io { s }),
            2 => (0u8..3).prop_map(|s| Op::Close { s }),
            2 => (0u8..3).prop_map(|s| Op::Reopen { s }),
        ],
        1..14,
    )
    .prop_map(|ops| Case { ops })
}

fn tv_of(t: u8) -> timeval {
    let us = u64::from(t) * 20_000;
    timeval { tv_sec: (us / 1_000_000) as i64, tv_usec: (us % 1_000_000) as i64 }
}

fn kernel_limit(fd: c_int, opt: c_int) -> Option<u64> {
    let mut tv: timeval = unsafe { std::mem::zeroed() };
    let mut len = std::mem::size_of::<timeval>() as socklen_t;
    let r = unsafe { libc::getsockopt(fd, libc::SOL_SOCKET, opt, std::ptr::from_mut(&mut tv).cast(), &raw mut len) };
    if r != 0 {
        return None;
    }
    let ns = (tv.tv_sec as u64) * 1_000_000_000 + (tv.tv_usec as u64) * 1_000;
    Some(if ns == 0 { u64::MAX } else { ns })
}

/// child side: execute the history, print the op log
pub fn child_main() -> i32 {
    let case: Case = serde_json::from_value(child::read_stdin_json()).expect("case");
    super::sockio::init_runtime();
    // slot -> Some((fd, peer))
    let mut slots: [Option<(c_int, c_int)>; 3] = [None; 3];
    let open = |slots: &mut [Option<(c_int, c_int)>; 3], s: usize| {
        let mut p = [0 as c_int; 2];
        unsafe {
            assert_eq!(0, libc::socketpair(libc::AF_UNIX, libc::SOCK_STREAM, 0, p.as_mut_ptr()));
        }
        slots[s] = Some((p[0], p[1]));
    };
    for s in 0..3 {
        open(&mut slots, s);
    }
    let mut reused_numbers = 0;
    let mut closed_numbers: Vec<c_int> = vec![];
    for (k, op) in case.ops.iter().enumerate() {
        child::emit(json!({"ev":"start","k":k}));
        match *op {
            Op::SetRcv { s, t } | Op::SetSnd { s, t } => {
                if let Some((fd, _)) = slots[s as usize % 3] {
                    let tv = tv_of(t);
                    let opt = if matches!(op, Op::SetRcv { .. }) { libc::SO_RCVTIMEO } else { libc::SO_SNDTIMEO };
                    let r = hooked::setsockopt(None, fd, libc::SOL_SOCKET, opt, std::ptr::from_ref(&tv).cast::<c_void>(), std::mem::size_of::<timeval>() as socklen_t);
                    if r != 0 {
                        child::emit(json!({"ev":"note","k":k,"what":"setsockopt failed","errno":std::io::Error::last_os_error().raw_os_error()}));
                    }
                }
            }
            Op::Io { s } => {
                if let Some((fd, peer)) = slots[s as usize % 3] {
                    let b = [7u8];
                    let mut r = [0u8];
                    let w = hooked::send(None, fd, b.as_ptr().cast(), 1, 0);
                    let g = hooked::recv(None, peer, r.as_mut_ptr().cast(), 1, 0);
                    // and the other direction so that fd's receive limit is consulted too
                    let w2 = hooked::send(None, peer, b.as_ptr().cast(), 1, 0);
                    let g2 = hooked::recv(None, fd, r.as_mut_ptr().cast(), 1, 0);
                    if (w, g, w2, g2) != (1, 1, 1, 1) {
                        child::emit(json!({"ev":"note","k":k,"what":"io returned","r":[w,g,w2,g2]}));
                    }
                }
            }
            Op::Close { s } => {
                if let Some((fd, peer)) = slots[s as usize % 3].take() {
                    let _ = hooked::close(None, fd);
                    let _ = hooked::close(None, peer);
                    closed_numbers.push(fd);
                    closed_numbers.push(peer);
                }
            }
            Op::Reopen { s } => {
                if slots[s as usize % 3].is_none() {
                    open(&mut slots, s as usize % 3);
                    let (a, b) = slots[s as usize % 3].unwrap();
                    if closed_numbers.contains(&a) || closed_numbers.contains(&b) {
                        reused_numbers += 1;
                    }
                }
            }
        }
        // differential check of every live socket (both ends)
        let mut bad = vec![];
        for (si, sl) in slots.iter().enumerate() {
            if let Some((fd, peer)) = sl {
                for f in [*fd, *peer] {
                    let kr = kernel_limit(f, libc::SO_RCVTIMEO);
                    let ks = kernel_limit(f, libc::SO_SNDTIMEO);
                    let hr = hooked::recv_time_limit(f);
                    let hs = hooked::send_time_limit(f);
                    if Some(hr) != kr {
                        bad.push(json!({"slot":si,"fd":f,"which":"recv","hook":hr,"kernel":kr}));
                    }
                    if Some(hs) != ks {
                        bad.push(json!({"slot":si,"fd":f,"which":"send","hook":hs,"kernel":ks}));
                    }
                }
            }
        }
        child::emit(json!({"ev":"done","k":k,"bad":bad}));
    }
    child::emit(json!({"ev":"result","reused_numbers":reused_numbers}));
    0
}

pub fn exec(c: &Case) -> Outcome {
    let js = serde_json::to_string(c).unwrap();
    let r = child::run_child(&ChildSpec { args: vec!["C19child".into()], stdin: &js, timeout: Duration::from_secs(20), env: vec![] });
    let mut set_twice = false;
    let mut set_after_io = false;
    let mut close_reuse = false;
    {
        let mut seen_set = [[false; 2]; 3];
        let mut seen_io = [false; 3];
        let mut closed = [false; 3];
        for op in &c.ops {
            match *op {
                Op::SetRcv { s, .. } | Op::SetSnd { s, .. } => {
                    let s = s as usize % 3;
                    let w = usize::from(matches!(op, Op::SetSnd { .. }));
                    if !closed[s] {
                        if seen_set[s][w] {
                            set_twice = true;
                        }
                        if seen_io[s] {
                            set_after_io = true;
                        }
                        seen_set[s][w] = true;
                    }
                }
                Op::Io { s } => {
                    if !closed[s as usize % 3] {
                        seen_io[s as usize % 3] = true;
                    }
                }
                Op::Close { s } => closed[s as usize % 3] = true,
                Op::Reopen { s } => {
                    let s = s as usize % 3;
                    if closed[s] {
                        closed[s] = false;
                        close_reuse = true;
                        // a reopened slot is a fresh socket as far as "set twice" goes, but its
                        // descriptor number is usually a reused one
                    }
                }
            }
        }
    }
    let mut o = Outcome::pass()
        .nt(set_twice || set_after_io || close_reuse)
        .class_if(set_twice, "option-set-twice")
        .class_if(set_after_io, "option-set-after-io")
        .class_if(close_reuse, "close-then-reopen");
    match &r.end {
        End::Exit(0) => {}
        End::Signal(sig) => {
            let at = r.open_op().and_then(|v| v["k"].as_u64());
            match at {
                Some(k) => {
                    let op = c.ops[k as usize];
                    let kind = match op {
                        Op::SetRcv { .. } => "setsockopt(SO_RCVTIMEO)",
                        Op::SetSnd { .. } => "setsockopt(SO_SNDTIMEO)",
                        Op::Io { .. } => "io",
                        Op::Close { .. } => "close",
                        Op::Reopen { .. } => "reopen",
                    };
                    o.set_fail(
                        format!("C19/{kind}/process-killed-by-signal-{sig}"),
                        format!("the child was killed by signal {sig} while executing op #{k} {op:?}; stderr tail: {}", r.stderr_tail.lines().rev().take(3).collect::<Vec<_>>().join(" | ")),
                    );
                }
                None => {
                    o.excluded = Some("child-died-outside-any-op");
                }
            }
            return o;
        }
        End::Deadline { .. } => {
            let at = r.open_op().and_then(|v| v["k"].as_u64());
            o.set_fail("C19/call-did-not-return", format!("child still running after 20 s, open op: {at:?}"));
            return o;
        }
        End::Exit(code) => {
            o.excluded = Some("child-exited-nonzero");
            let _ = code;
            return o;
        }
    }
    for l in r.find("done") {
        if let Some(bad) = l["bad"].as_array() {
            if let Some(b) = bad.first() {
                let k = l["k"].as_u64().unwrap_or(0) as usize;
                let which = b["which"].as_str().unwrap_or("?");
                o.set_fail(
                    format!("C19/{which}-limit-differs-from-the-sockets-option"),
                    format!("after op #{k} {:?}: descriptor {} {which} limit: hook says {}, kernel getsockopt says {}", c.ops[k], b["fd"], b["hook"], b["kernel"]),
                );
                return o;
            }
        }
    }
    o
}

pub fn main(args: &Args) -> i32 {
    if let Some(p) = &args.replay {
        let (_, _, case) = vkit::load_replay(p);
        return vkit::replay_verdict("C19", p, &exec(&serde_json::from_value(case).expect("case")));
    }
    let mut ev = Evidence::new("C19", args, "fault_enumeration");
    ev.assume("timeouts are multiples of 20 ms so that the kernel's jiffies rounding cannot make its getsockopt value differ from what was set");
    ev.assume("one fresh child process per history; an abort is attributed to the op whose `start` line has no `done`");
    ev.add(vkit::run_regress("C19", |_s, case| exec(&serde_json::from_value(case).expect("case"))));
    if ev.has_violations() {
        return ev.finish();
    }
    ev.add(vkit::run_prop(
        &RunCfg {
            property: "C19",
            sub: "sockopt",
            rule: "histories of 1..13 ops over 3 socketpairs: set SO_RCVTIMEO / SO_SNDTIMEO (0, 20..100 ms, 1 s, 5 s), hooked send+recv, close, reopen (descriptor numbers get reused); non-trivial = an option set twice, or set after I/O, or a close followed by a reopen",
            seed: args.seed,
            cases: args.cases(400, 12_000),
            shards: 8,
            max_shrink_iters: 600,
        },
        strategy,
        exec,
    ));
    ev.finish()
}

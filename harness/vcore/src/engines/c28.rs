//! C28 — time and slicing helpers never overflow or loop.
//! Domain: Durations over the full range (boundary-biased), (total, slice≠0) built by
//! construction as total = k·slice + r with k ≤ 100 000, non-negative timevals.
//! Oracle: algebraic (saturating sum between two clock reads; partition law; zero ⇒ MAX).

use open_coroutine_core::common::{get_slices, get_timeout_time, now};
use proptest::prelude::*;
use serde::{Deserialize, Serialize};
use std::time::Duration;
use vkit::{Args, Evidence, Outcome, RunCfg};

#[derive(Debug, Clone, Serialize, Deserialize)]
pub enum Case {
    Timeout { secs: u64, nanos: u32 },
    Slices { slice_secs: u64, slice_nanos: u32, k: u32, rem_frac: u32 },
    Limit { sec: i64, usec: i64 },
}

fn biased_u64() -> impl Strategy<Value = u64> {
    prop_oneof![
        3 => any::<u64>(),
        2 => 0u64..1000,
        1 => Just(0u64),
        1 => Just(1u64),
        1 => Just(u64::MAX),
        1 => Just(u64::MAX - 1),
        1 => Just(u64::MAX / 1_000_000_000),
        1 => Just(u64::MAX / 1_000_000_000 + 1),
        1 => Just(u64::MAX / 1_000_000_000 - 1),
        1 => Just(i64::MAX as u64),
        2 => (0u32..64).prop_map(|s| 1u64 << s),
        1 => (1u32..64).prop_map(|s| (1u64 << s) - 1),
        // near "now" in seconds (so that now + d straddles u64::MAX ns)
        2 => (0u64..40_000_000_000).prop_map(|x| u64::MAX / 1_000_000_000 - x.min(u64::MAX / 1_000_000_000)),
    ]
}

fn nanos() -> impl Strategy<Value = u32> {
    prop_oneof![
        2 => 0u32..1_000_000_000,
        1 => Just(0u32),
        1 => Just(1u32),
        1 => Just(999_999_999u32),
    ]
}

pub fn strategy() -> impl Strategy<Value = Case> {
    prop_oneof![
        4 => (biased_u64(), nanos()).prop_map(|(secs, nanos)| Case::Timeout { secs, nanos }),
        4 => (
            prop_oneof![3 => 0u64..5, 1 => biased_u64()],
            nanos(),
            prop_oneof![3 => 0u32..20, 2 => 0u32..=100_000, 1 => Just(100_000u32), 1 => Just(1u32)],
            any::<u32>()
        )
            .prop_map(|(slice_secs, slice_nanos, k, rem_frac)| Case::Slices {
                slice_secs,
                slice_nanos,
                k,
                rem_frac
            }),
        3 => (
            prop_oneof![2 => 0i64..100, 1 => Just(0i64), 1 => Just(i64::MAX), 1 => 0i64..=i64::MAX,
                        1 => Just((u64::MAX / 1_000_000_000) as i64), 1 => Just((u64::MAX / 1_000_000_000) as i64 + 1)],
            prop_oneof![2 => 0i64..1_000_000, 1 => Just(0i64), 1 => Just(999_999i64), 1 => 0i64..=i64::MAX, 1 => Just(i64::MAX)]
        )
            .prop_map(|(sec, usec)| Case::Limit { sec, usec }),
    ]
}

pub fn exec(case: &Case) -> Outcome {
    match *case {
        Case::Timeout { secs, nanos } => {
            let d = Duration::new(secs, nanos % 1_000_000_000);
            let n0 = now();
            let got = get_timeout_time(d);
            let n1 = now();
            let dn = d.as_nanos();
            let sat = |n: u64| -> u64 {
                if dn > u128::from(u64::MAX) {
                    u64::MAX
                } else {
                    (dn as u64).saturating_add(n)
                }
            };
            let (lo, hi) = (sat(n0), sat(n1));
            let saturates = dn > u128::from(u64::MAX - n1);
            let mut o = Outcome::pass()
                .nt(saturates || dn == 0 || dn > u128::from(u64::MAX / 2))
                .class("timeout")
                .class_if(saturates, "timeout-saturates")
                .class_if(dn > u128::from(u64::MAX), "timeout-nanos-exceed-u64");
            // the wall clock may step backwards between two reads; accept either order
            let (lo, hi) = (lo.min(hi), lo.max(hi));
            if got < lo || got > hi {
                o.set_fail(
                    "C28/get_timeout_time/not-saturating-sum",
                    format!("get_timeout_time({d:?}) = {got}, expected within [{lo},{hi}]"),
                );
            }
            o
        }
        Case::Slices { slice_secs, slice_nanos, k, rem_frac } => {
            let mut slice = Duration::new(slice_secs, slice_nanos % 1_000_000_000);
            if slice.is_zero() {
                slice = Duration::from_nanos(1);
            }
            // total = k*slice + r, r in [0, slice)
            let sn = slice.as_nanos();
            let r = (sn * u128::from(rem_frac)) >> 32;
            let max = Duration::MAX.as_nanos();
            let mut k = u128::from(k);
            while k > 0 && sn.checked_mul(k).and_then(|x| x.checked_add(r)).map_or(true, |x| x > max) {
                k /= 2;
            }
            let tn = sn * k + r;
            let total = Duration::new((tn / 1_000_000_000) as u64, (tn % 1_000_000_000) as u32);
            let pieces = vkit::hang::guard(
                "helpers",
                "C28/get_slices/does-not-terminate",
                || serde_json::to_string(case).unwrap(),
                || get_slices(total, slice),
            );
            let mut o = Outcome::pass()
                .nt((k >= 2 && r > 0) || (k >= 1 && r == 0) || k == 0)
                .class("slices")
                .class_if(k >= 1 && r == 0, "slices-exact-multiple")
                .class_if(k == 0, "slices-slice-gt-total")
                .class_if(total.is_zero(), "slices-zero-total")
                .class_if(k >= 1000, "slices-1000+pieces");
            if total.is_zero() != pieces.is_empty() {
                o.set_fail(
                    "C28/get_slices/emptiness",
                    format!("total={total:?} slice={slice:?}: {} pieces", pieces.len()),
                );
                return o;
            }
            let mut sum = Duration::ZERO;
            for p in &pieces {
                if *p > slice {
                    o.set_fail(
                        "C28/get_slices/piece-exceeds-slice",
                        format!("total={total:?} slice={slice:?}: piece {p:?}"),
                    );
                    return o;
                }
                match sum.checked_add(*p) {
                    Some(s) => sum = s,
                    None => {
                        o.set_fail("C28/get_slices/sum-overflow", format!("total={total:?} slice={slice:?}"));
                        return o;
                    }
                }
            }
            if sum != total {
                o.set_fail(
                    "C28/get_slices/sum-differs",
                    format!("total={total:?} slice={slice:?}: sum {sum:?} over {} pieces", pieces.len()),
                );
            }
            o
        }
        Case::Limit { sec, usec } => {
            let tv = libc::timeval { tv_sec: sec.max(0), tv_usec: usec.max(0) };
            let got = open_coroutine_core::verif::time_limit_of(&tv);
            let exp128 = (tv.tv_sec as u128) * 1_000_000_000 + (tv.tv_usec as u128) * 1_000;
            let mut exp = u64::try_from(exp128).unwrap_or(u64::MAX);
            if exp == 0 {
                exp = u64::MAX;
            }
            let mut o = Outcome::pass()
                .nt(exp128 == 0 || exp128 > u128::from(u64::MAX) || tv.tv_usec >= 1_000_000)
                .class("limit")
                .class_if(exp128 == 0, "limit-zero")
                .class_if(exp128 > u128::from(u64::MAX), "limit-saturates");
            if got != exp {
                o.set_fail(
                    "C28/get_time_limit/wrong-value",
                    format!("timeval({},{}) -> {got}, expected {exp}", tv.tv_sec, tv.tv_usec),
                );
            }
            o
        }
    }
}

pub fn main(args: &Args) -> i32 {
    if let Some(p) = &args.replay {
        let (_, _, case) = vkit::load_replay(p);
        let case: Case = serde_json::from_value(case).expect("case");
        vkit::hang::start_monitor("C28", args.tier, args.seed, Duration::from_secs(20));
        return vkit::replay_verdict("C28", p, &exec(&case));
    }
    vkit::hang::start_monitor("C28", args.tier, args.seed, Duration::from_secs(20));
    let mut ev = Evidence::new("C28", args, "exploration");
    ev.assume("timeval fields are non-negative (the kernel rejects negative SO_*TIMEO values with EDOM before the runtime sees them)");
    ev.assume("total/slice <= 100000 pieces: get_slices materialises a Vec, callers cannot ask for more");
    ev.assume("the wall clock read by now() does not jump by more than the interval between two reads around the call");
    let cfg = RunCfg {
        property: "C28",
        sub: "helpers",
        rule: "proptest over boundary-biased Durations / (k*slice+r, slice) pairs / timevals; non-trivial = saturation or >u64 path, zero input, exact multiple, slice>total, k>=2 with remainder, usec>=1e6",
        seed: args.seed,
        cases: args.cases(60_000, 3_000_000),
        shards: 8,
        max_shrink_iters: 2000,
    };
    let st = vkit::run_prop(&cfg, strategy, exec);
    ev.add(st);
    ev.finish()
}

use vcore::engines;
use vkit::Args;

fn main() {
    let args = Args::parse();
    let code = match args.engine.as_str() {
        "C05" => engines::c05::main(&args),
        "C06" => engines::c06::main(&args),
        "C28" => engines::c28::main(&args),
        "C08" => engines::c08::main(&args),
        "C07" => engines::c07::main(&args),
        "C09" => engines::c09::main(&args),
        "C25" => engines::c25::main(&args),
        "C10" => engines::c10::main(&args),
        "C11" => engines::c11::main_c11(&args),
        "C12" => engines::c11::main_c12(&args),
        "C11child" => engines::c11::child_c11(),
        "C12child" => engines::c11::child_c12(),
        "C11twochild" => engines::c11two::child_main(),
        "C26" => engines::c26::main(&args),
        "C26child" => engines::c26::child_main(),
        "C21" => engines::c21::main(&args),
        "C21child" => engines::c21::child_main(),
        "C14" => engines::c14::main(&args),
        "C14child" => engines::c14::child_main(),
        "C23" => engines::c23::main(&args),
        "C23child" => engines::c23::child_main(),
        "C24" => engines::c24::main(&args),
        "C24child" => engines::c24::child_main(),
        "C24taskchild" => engines::c24::task_child_main(),
        "C02" => engines::c02::main(&args),
        "C13" => engines::c13::main(&args),
        "C15" => engines::c15::main(&args),
        "C15child" => engines::c15::child_main(),
        "C15burstchild" => engines::c15burst::child_main(),
        "C22" => engines::c22::main(&args),
        "C22child" => engines::c22::child_main(),
        "C27" => engines::c27::main(&args),
        "C27child" => engines::c27::child_main(),
        "C01" => engines::c01::main(&args),
        "RTchild" => engines::rt::child_main(),
        "C20" => engines::c20::main(&args),
        "C20child" => engines::c20::child_main(),
        other => {
            eprintln!("unknown engine {other}");
            2
        }
    };
    std::process::exit(code);
}

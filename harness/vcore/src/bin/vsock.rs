//! vsock — the scripted-kernel engines (C16, C17, C18, C19) behind a poisoning, size-tracking
//! global allocator: fresh memory is filled with 0xA5, every allocation carries a 64-byte
//! poisoned tail, and (while tracking is on for a thread) the size of each allocation is
//! remembered by start address, so that "element count larger than the array that was
//! built" is decided instead of faulting or silently reading zeros.

use std::alloc::{GlobalAlloc, Layout, System};
use std::cell::Cell;
use std::sync::atomic::{AtomicUsize, Ordering};
use vcore::engines::sockio;
use vkit::Args;

const SLOTS: usize = 1 << 16;
const TAIL: usize = 64;
static PTRS: [AtomicUsize; SLOTS] = [const { AtomicUsize::new(0) }; SLOTS];
static SIZES: [AtomicUsize; SLOTS] = [const { AtomicUsize::new(0) }; SLOTS];

thread_local! {
    static TRACK: Cell<bool> = const { Cell::new(false) };
}

fn slot(p: usize) -> usize {
    (p >> 4).wrapping_mul(0x9E37_79B9_7F4A_7C15) >> (64 - 16)
}

struct Poison;

unsafe impl GlobalAlloc for Poison {
    unsafe fn alloc(&self, l: Layout) -> *mut u8 {
        let Ok(big) = Layout::from_size_align(l.size() + TAIL, l.align()) else { return std::ptr::null_mut() };
        let p = System.alloc(big);
        if !p.is_null() {
            std::ptr::write_bytes(p, sockio::POISON, l.size() + TAIL);
            if TRACK.try_with(Cell::get).unwrap_or(false) {
                let s = slot(p as usize);
                SIZES[s].store(l.size(), Ordering::Relaxed);
                PTRS[s].store(p as usize, Ordering::Release);
            }
        }
        p
    }
    unsafe fn dealloc(&self, p: *mut u8, l: Layout) {
        let s = slot(p as usize);
        if PTRS[s].load(Ordering::Relaxed) == p as usize {
            PTRS[s].store(0, Ordering::Relaxed);
        }
        if let Ok(big) = Layout::from_size_align(l.size() + TAIL, l.align()) {
            System.dealloc(p, big);
        }
    }
    unsafe fn alloc_zeroed(&self, l: Layout) -> *mut u8 {
        let p = self.alloc(l);
        if !p.is_null() {
            std::ptr::write_bytes(p, 0, l.size());
        }
        p
    }
    // realloc: default (alloc + copy + dealloc) keeps the poison / tracking discipline
}

#[global_allocator]
static A: Poison = Poison;

fn size_of(p: usize) -> Option<usize> {
    let s = slot(p);
    if PTRS[s].load(Ordering::Acquire) == p && p != 0 {
        Some(SIZES[s].load(Ordering::Relaxed))
    } else {
        None
    }
}
fn track(on: bool) {
    let _ = TRACK.try_with(|t| t.set(on));
}

fn main() {
    let _ = sockio::ALLOC_SIZE_OF.set(size_of);
    let _ = sockio::ALLOC_TRACK.set(track);
    let args = Args::parse();
    let code = match args.engine.as_str() {
        "C16" => sockio::main_for(&args, sockio::Which::C16),
        "C17" => sockio::main_for(&args, sockio::Which::C17),
        "C18" => sockio::main_for(&args, sockio::Which::C18),
        "C19" => vcore::engines::c19::main(&args),
        "C19child" => vcore::engines::c19::child_main(),
        other => {
            eprintln!("unknown engine {other}");
            2
        }
    };
    std::process::exit(code);
}

//! Coverage-guided entry points (libFuzzer, `cargo +nightly fuzz`). Every target decodes the
//! fuzzer's bytes with `arbitrary::Unstructured` into the *same* case type the property-based
//! tiers generate, and hands it to the same interpreter and oracle; only in-process engines
//! are exposed (no child processes, no runtime threads). A first attempt to feed the bytes
//! to the proptest strategies as their random stream (`RngAlgorithm::PassThrough`) was
//! dropped: that stream answers zeros when it runs out and splits in halves at every fork,
//! and rand's unbiased range sampling never accepts an all-zero stream (endless loop).

use crate::engines::qreal::Op as QOp;
use crate::engines::{c05, c06, c09, c25, c28};
use arbitrary::Unstructured;
use vkit::Outcome;

/// (target name, property)
pub const TARGETS: &[(&str, &str)] = &[
    ("c05s", "C05"),
    ("c05o", "C05"),
    ("c05t", "C05"),
    ("c06f", "C06"),
    ("c06f2", "C06"),
    ("c06i", "C06"),
    ("c09", "C09"),
    ("c25", "C25"),
    ("c28", "C28"),
];

type R<T> = arbitrary::Result<T>;

fn prio(u: &mut Unstructured) -> R<i64> {
    Ok(match u.int_in_range(0u8..=15)? {
        0..=5 => i64::from(u.int_in_range(-2i8..=2)?),
        6 => i64::MIN,
        7 => i64::MIN + 1,
        8 => i64::MAX - 1,
        9 => i64::MAX,
        10 => u.arbitrary::<i64>()?,
        11 => 1i64 << u.int_in_range(0u32..=62)?,
        12 => -(1i64 << u.int_in_range(0u32..=62)?),
        13 => i64::from(u.int_in_range(-3i8..=2)?) + (1i64 << 32),
        14 => i64::from(u.int_in_range(-3i8..=2)?) - (1i64 << 32),
        _ => 0,
    })
}

/// weights as in `qreal::op(w_lpush, w_lpop, w_spush, w_spop)`
fn qop(u: &mut Unstructured, w: [u32; 4]) -> R<QOp> {
    let total = w[0] + (w[0] / 6).max(1) + w[1] + w[2] + w[3];
    let mut x = u.int_in_range(0..=total - 1)?;
    if x < w[0] {
        return Ok(QOp::LPush { q: u.arbitrary()?, prio: prio(u)? });
    }
    x -= w[0];
    if x < (w[0] / 6).max(1) {
        return Ok(QOp::LPushDefault { q: u.arbitrary()? });
    }
    x -= (w[0] / 6).max(1);
    if x < w[1] {
        return Ok(QOp::LPop { q: u.arbitrary()? });
    }
    x -= w[1];
    if x < w[2] {
        return Ok(QOp::SPush { prio: prio(u)? });
    }
    Ok(QOp::SPop)
}

fn qops(u: &mut Unstructured, w: [u32; 4], min: usize, max: usize) -> R<Vec<QOp>> {
    let mut v = vec![];
    while v.len() < max && (v.len() < min || !u.is_empty()) {
        v.push(qop(u, w)?);
    }
    Ok(v)
}

fn cap(u: &mut Unstructured) -> R<u16> {
    Ok(match u.int_in_range(0u8..=5)? {
        0..=2 => u.int_in_range(1u16..=8)?,
        3 | 4 => u.int_in_range(1u16..=64)?,
        _ => 256,
    })
}

fn dec_c05_hist(u: &mut Unstructured) -> R<c05::Hist> {
    Ok(c05::Hist { nlocals: u.int_in_range(1u8..=4)?, cap: cap(u)?, ops: qops(u, [6, 5, 3, 2], 0, 120)? })
}

fn dec_c05_scen(u: &mut Unstructured) -> R<c05::Scen> {
    let cap = if u.arbitrary::<bool>()? { u.int_in_range(1u16..=8)? } else { u.int_in_range(1u16..=40)? };
    let n = u.int_in_range(1usize..=119)?;
    let mut prios = vec![];
    for _ in 0..n {
        prios.push(prio(u)?);
    }
    let m = u.int_in_range(0usize..=39)?;
    let mut b_ops = vec![];
    for _ in 0..m {
        b_ops.push(if u.int_in_range(0u8..=4)? < 3 { None } else { Some(prio(u)?) });
    }
    Ok(c05::Scen { cap, prios, b_ops })
}

fn dec_c06(u: &mut Unstructured, which: u8) -> R<c06::Hist> {
    Ok(match which {
        // F / F2: pop-heavy, one local mostly
        0 | 1 => c06::Hist {
            ordered: u.arbitrary()?,
            nlocals: [1u8, 1, 1, 1, 2, 3][u.int_in_range(0usize..=5)?],
            cap: match u.int_in_range(0u8..=4)? {
                0 | 1 => u.int_in_range(3u16..=8)?,
                2 | 3 => u.int_in_range(8u16..=64)?,
                _ => 256,
            },
            ops: qops(u, if which == 0 { [5, 9, 2, 0] } else { [6, 9, 2, 1] }, 70, 260)?,
        },
        _ => c06::Hist { ordered: u.arbitrary()?, nlocals: u.int_in_range(2u8..=4)?, cap: if u.int_in_range(0u8..=3)? < 3 { u.int_in_range(1u16..=8)? } else { u.int_in_range(8u16..=32)? }, ops: qops(u, [7, 6, 1, 1], 1, 120)? },
    })
}

fn dec_c09(u: &mut Unstructured) -> R<c09::Case> {
    let n = u.int_in_range(2usize..=5)?;
    let mut cos = vec![];
    for _ in 0..n {
        let k = u.int_in_range(0usize..=6)?;
        let mut ys = vec![];
        for _ in 0..k {
            ys.push(match u.int_in_range(0u8..=13)? {
                0..=3 => c09::Y::Plain,
                4..=6 => c09::Y::Until,
                7 => c09::Y::Cancel,
                8 | 9 => c09::Y::SysPlain,
                10..=12 => c09::Y::SysUntil,
                _ => c09::Y::SysCancel,
            });
        }
        cos.push(ys);
    }
    let m = u.int_in_range(0usize..=39)?;
    let mut order = vec![];
    for _ in 0..m {
        order.push(u.arbitrary::<u16>()?);
    }
    Ok(c09::Case { cos, order })
}

fn dec_c25(u: &mut Unstructured) -> R<c25::Case> {
    let mut ops = vec![];
    while ops.len() < 60 && !u.is_empty() {
        let (c, k) = (u.int_in_range(0u8..=2)?, u.int_in_range(0u8..=3)?);
        ops.push(match u.int_in_range(0u8..=19)? {
            0..=5 => c25::Op::Put { c, k },
            6..=9 => c25::Op::Get { c, k },
            10 | 11 => c25::Op::GetMutWrite { c, k },
            12..=14 => c25::Op::Remove { c, k },
            15 => c25::Op::DropCo { c },
            16..=18 => c25::Op::PutShape { c, k: k % 2, shape: u.int_in_range(0u8..=1)? },
            _ => c25::Op::RemoveShape { c, k: k % 2, shape: u.int_in_range(0u8..=1)? },
        });
    }
    Ok(c25::Case { ops })
}

fn dec_c28(u: &mut Unstructured) -> R<c28::Case> {
    fn big(u: &mut Unstructured) -> R<u64> {
        Ok(match u.int_in_range(0u8..=9)? {
            0..=2 => u.arbitrary()?,
            3 => u.int_in_range(0u64..=999)?,
            4 => u64::MAX - u.int_in_range(0u64..=2)?,
            5 => u64::MAX / 1_000_000_000 + u.int_in_range(0u64..=2)? - 1,
            6 => 1u64 << u.int_in_range(0u32..=63)?,
            7 => (1u64 << u.int_in_range(1u32..=63)?) - 1,
            8 => u64::MAX / 1_000_000_000 - u.int_in_range(0u64..=40_000_000_000)?.min(u64::MAX / 1_000_000_000),
            _ => i64::MAX as u64,
        })
    }
    let nanos = |u: &mut Unstructured| -> R<u32> { Ok([0u32, 1, 999_999_999, u.int_in_range(0u32..=999_999_999)?][u.int_in_range(0usize..=3)?]) };
    Ok(match u.int_in_range(0u8..=10)? {
        0..=3 => c28::Case::Timeout { secs: big(u)?, nanos: nanos(u)? },
        4..=7 => c28::Case::Slices {
            slice_secs: if u.int_in_range(0u8..=3)? < 3 { u.int_in_range(0u64..=4)? } else { big(u)? },
            slice_nanos: nanos(u)?,
            k: match u.int_in_range(0u8..=6)? {
                0..=2 => u.int_in_range(0u32..=19)?,
                3 | 4 => u.int_in_range(0u32..=100_000)?,
                5 => 100_000,
                _ => 1,
            },
            rem_frac: u.arbitrary()?,
        },
        _ => c28::Case::Limit {
            sec: match u.int_in_range(0u8..=5)? {
                0 | 1 => u.int_in_range(0i64..=99)?,
                2 => i64::MAX,
                3 => u.int_in_range(0i64..=i64::MAX)?,
                4 => (u64::MAX / 1_000_000_000) as i64 + i64::from(u.int_in_range(0u8..=1)?),
                _ => 0,
            },
            usec: match u.int_in_range(0u8..=5)? {
                0 | 1 => u.int_in_range(0i64..=999_999)?,
                2 => 999_999,
                3 => u.int_in_range(0i64..=i64::MAX)?,
                4 => i64::MAX,
                _ => 0,
            },
        },
    })
}

fn ser<T: serde::Serialize>(sub: &'static str, case: &T, o: Outcome) -> Option<(&'static str, Outcome, serde_json::Value)> {
    Some((sub, o, serde_json::to_value(case).unwrap_or(serde_json::Value::Null)))
}

/// Execute one fuzz input. Returns `(sub-run name, outcome, case as json)`; `None` when the
/// bytes do not decode to a case.
pub fn run(target: &str, data: &[u8]) -> Option<(&'static str, Outcome, serde_json::Value)> {
    let mut u = Unstructured::new(data);
    match target {
        "c05s" => dec_c05_hist(&mut u).ok().and_then(|c| ser("S", &c, c05::exec_s(&c))),
        "c05o" => dec_c05_scen(&mut u).ok().and_then(|c| ser("O", &c, c05::exec_o(&c))),
        "c05t" => dec_c05_scen(&mut u).ok().and_then(|c| ser("T", &c, c05::exec_t(&c))),
        "c06f" => dec_c06(&mut u, 0).ok().and_then(|c| ser("F", &c, c06::exec_f(&c))),
        "c06f2" => dec_c06(&mut u, 1).ok().and_then(|c| ser("F2", &c, c06::exec_f2(&c))),
        "c06i" => dec_c06(&mut u, 2).ok().and_then(|c| ser("I", &c, c06::exec_i(&c))),
        "c09" => dec_c09(&mut u).ok().and_then(|c| ser("requests", &c, c09::exec(&c))),
        "c25" => dec_c25(&mut u).ok().and_then(|c| ser("local", &c, c25::exec(&c))),
        "c28" => dec_c28(&mut u).ok().and_then(|c| ser("helpers", &c, c28::exec(&c))),
        _ => None,
    }
}

/// Called by every fuzz target: runs the input and, on an unlisted violation, writes the
/// replay file, prints the VIOLATION line and aborts (so that libFuzzer keeps the input).
pub fn fuzz_one(target: &str, data: &[u8]) {
    let property = TARGETS.iter().find(|t| t.0 == target).map_or("C00", |t| t.1);
    // a panic of the code under test (overflow checks are on) is a finding of its own, as in
    // the property-based runner
    let r = std::panic::catch_unwind(|| run(target, data));
    let (sub, o, case) = match r {
        Ok(Some(x)) => x,
        Ok(None) => return,
        Err(e) => {
            let m = e.downcast_ref::<&'static str>().map(|s| (*s).to_string()).or_else(|| e.downcast_ref::<String>().cloned()).unwrap_or_default();
            ("fuzz", Outcome::fail(format!("{property}/harness-or-code-panic"), format!("panic while executing the decoded case: {m}")), serde_json::json!({"fuzz_input_hex": data.iter().map(|b| format!("{b:02x}")).collect::<String>(), "target": target}))
        }
    };
    let Some((sig, msg)) = o.fail else { return };
    if vkit::Known::load(property).is_known(&sig).is_some() {
        return;
    }
    let dir = vkit::verif_dir().join("replays").join(property);
    let _ = std::fs::create_dir_all(&dir);
    let path = dir.join(format!("fuzz-{target}-{:016x}.json", vkit::hash64(&serde_json::to_string(&case).unwrap_or_default())));
    let body = serde_json::json!({"property": property, "sub": sub, "signature": sig, "message": msg, "found_by": format!("libFuzzer target {target}"), "case": case});
    let _ = std::fs::write(&path, serde_json::to_string_pretty(&body).unwrap_or_default());
    println!("VIOLATION property={} replay={}", property, path.display());
    eprintln!("[{property}] fuzz target {target}: {sig} :: {msg}");
    std::process::abort();
}

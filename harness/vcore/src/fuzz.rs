//! Coverage-guided entry points (libFuzzer, `cargo +nightly fuzz`): the fuzzer's bytes are
//! used as the random stream of the engine's *own* proptest strategy
//! (`RngAlgorithm::PassThrough`), so a fuzz input decodes to exactly the case type, the same
//! interpreter and the same oracle as the property-based tiers; mutation of the bytes is
//! mutation of the generator's choices. Only in-process engines are exposed (no child
//! processes, no runtime threads).

use crate::engines::{c05, c06, c08, c09, c25, c28};
use proptest::strategy::{Strategy, ValueTree};
use proptest::test_runner::{Config, RngAlgorithm, TestRng, TestRunner};
use serde::Serialize;
use vkit::Outcome;

pub const TARGETS: &[(&str, &str)] = &[
    ("c05s", "C05"),
    ("c05o", "C05"),
    ("c05t", "C05"),
    ("c06f", "C06"),
    ("c06f2", "C06"),
    ("c06i", "C06"),
    ("c08", "C08"),
    ("c09", "C09"),
    ("c25", "C25"),
    ("c28", "C28"),
];

fn decode<S: Strategy>(s: &S, data: &[u8]) -> Option<S::Value> {
    if data.is_empty() {
        return None;
    }
    let rng = TestRng::from_seed(RngAlgorithm::PassThrough, data);
    let mut runner = TestRunner::new_with_rng(Config { failure_persistence: None, ..Config::default() }, rng);
    s.new_tree(&mut runner).ok().map(|t| t.current())
}

fn go<S: Strategy>(s: S, data: &[u8], exec: impl Fn(&S::Value) -> Outcome) -> Option<(Outcome, serde_json::Value)>
where
    S::Value: Serialize,
{
    let case = decode(&s, data)?;
    let o = exec(&case);
    Some((o, serde_json::to_value(&case).unwrap_or(serde_json::Value::Null)))
}

/// Execute one fuzz input. Returns `(sub-run name, outcome, case as json)`.
pub fn run(target: &str, data: &[u8]) -> Option<(&'static str, Outcome, serde_json::Value)> {
    let (sub, r) = match target {
        "c05s" => ("S", go(c05::hist_strategy(120), data, c05::exec_s)),
        "c05o" => ("O", go(c05::scen_strategy(), data, c05::exec_o)),
        "c05t" => ("T", go(c05::scen_strategy(), data, c05::exec_t)),
        "c06f" => ("F", go(c06::hist_f_strategy(260), data, c06::exec_f)),
        "c06f2" => ("F2", go(c06::hist_f2_strategy(260), data, c06::exec_f2)),
        "c06i" => ("I", go(c06::hist_i_strategy(120), data, c06::exec_i)),
        "c08" => ("values", go(c08::strategy(), data, c08::exec)),
        "c09" => ("requests", go(c09::strategy(), data, c09::exec)),
        "c25" => ("local", go(c25::strategy(), data, c25::exec)),
        "c28" => ("helpers", go(c28::strategy(), data, c28::exec)),
        _ => return None,
    };
    r.map(|(o, c)| (sub, o, c))
}

/// Called by every fuzz target: runs the input, and on an unlisted violation writes the
/// replay file, prints the VIOLATION line and aborts (so that libFuzzer keeps the input).
pub fn fuzz_one(target: &str, data: &[u8]) {
    let property = TARGETS.iter().find(|t| t.0 == target).map_or("C00", |t| t.1);
    let Some((sub, o, case)) = run(target, data) else { return };
    let Some((sig, msg)) = o.fail else { return };
    if vkit::Known::load(property).is_known(&sig).is_some() {
        return;
    }
    let dir = vkit::verif_dir().join("replays").join(property);
    let _ = std::fs::create_dir_all(&dir);
    let path = dir.join(format!("fuzz-{target}-{:016x}.json", vkit::hash64(&serde_json::to_string(&case).unwrap_or_default())));
    let body = serde_json::json!({"property": property, "sub": sub, "signature": sig, "message": msg, "found_by": format!("libFuzzer target {target}"), "case": case});
    let _ = std::fs::write(&path, serde_json::to_string_pretty(&body).unwrap_or_default());
    println!("VIOLATION property={} replay={}", property, path.display());
    eprintln!("[{property}] fuzz target {target}: {sig} :: {msg}");
    std::process::abort();
}

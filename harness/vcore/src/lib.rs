pub mod engines;
pub mod fuzz;

pub mod engines;

//! Copies the two queue sources from the repository under test into OUT_DIR, rewriting
//! only the atomics import path. Any drift in the expected pattern fails the build
//! (=> the check exits 2, never a silent pass or a false alarm).
use std::path::PathBuf;

fn main() {
    let repo = std::env::var("VERIF_REPO").unwrap_or_else(|_| "/repo".into());
    let out = PathBuf::from(std::env::var("OUT_DIR").unwrap());
    println!("cargo:rerun-if-env-changed=VERIF_REPO");
    for name in ["work_steal.rs", "ordered_work_steal.rs"] {
        let p = PathBuf::from(&repo).join("core/src/common").join(name);
        println!("cargo:rerun-if-changed={}", p.display());
        let src = std::fs::read_to_string(&p).unwrap_or_else(|e| panic!("cannot read {}: {e}", p.display()));
        let n = src.matches("std::sync::atomic::").count();
        assert!(n >= 1, "{name}: expected at least one `std::sync::atomic::` import, found {n}");
        // every occurrence must be a path prefix of an import or a qualified use; rewriting all
        // of them keeps every atomic the file touches instrumented
        let rewritten = src
            .replace("std::sync::atomic::", "crate::shim::atomic::")
            // the owner lock of the local queues (a yield-aware shim mutex, every lock attempt is a step)
            .replace("std::sync::Mutex", "crate::shim::sync::Mutex")
            .replace("std::sync::PoisonError", "crate::shim::sync::PoisonError");
        for needle in ["crossbeam_deque::", "st3::fifo::", "rand::"] {
            assert!(src.contains(needle), "{name}: expected the source to use `{needle}` (shim target)");
        }
        for forbidden in ["std::sync::Mutex", "std::thread::", "parking_lot", "std::sync::Condvar"] {
            assert!(!rewritten.contains(forbidden) || forbidden == "std::thread::" && rewritten.matches("std::thread::").count() == rewritten.matches("std::thread::panicking").count(),
                "{name}: source now uses `{forbidden}`, which the shim scheduler does not model");
        }
        std::fs::write(out.join(name), rewritten).unwrap();
    }
}

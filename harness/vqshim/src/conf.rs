//! Shim conformance: random single-threaded op sequences on the real `st3` rings and the
//! real `crossbeam_deque::Injector` versus the shims must agree observably. This is the
//! trusted base of C03/C04 and runs in every tier.

use proptest::prelude::*;
use serde::{Deserialize, Serialize};
use vkit::{Args, Outcome, RunCfg, Stats};

#[derive(Debug, Clone, Serialize, Deserialize)]
pub enum COp {
    Push { w: bool, x: u16 },
    Pop { w: bool },
    Steal { from_a: bool, count: u8 },
    Spare { w: bool },
    IsEmpty { w: bool },
    InjPush(u16),
    InjSteal,
}

#[derive(Debug, Clone, Serialize, Deserialize)]
pub struct CCase {
    pub cap_a: u8,
    pub cap_b: u8,
    pub ops: Vec<COp>,
}

fn strat() -> impl Strategy<Value = CCase> {
    (
        1u8..=9,
        1u8..=9,
        proptest::collection::vec(
            prop_oneof![
                5 => (any::<bool>(), any::<u16>()).prop_map(|(w, x)| COp::Push { w, x }),
                4 => any::<bool>().prop_map(|w| COp::Pop { w }),
                3 => (any::<bool>(), 0u8..12).prop_map(|(from_a, count)| COp::Steal { from_a, count }),
                1 => any::<bool>().prop_map(|w| COp::Spare { w }),
                1 => any::<bool>().prop_map(|w| COp::IsEmpty { w }),
                2 => any::<u16>().prop_map(COp::InjPush),
                2 => Just(COp::InjSteal),
            ],
            0..60,
        ),
    )
        .prop_map(|(cap_a, cap_b, ops)| CCase { cap_a, cap_b, ops })
}

fn exec(c: &CCase) -> Outcome {
    let ra = [real_st3::fifo::Worker::<u16>::new(c.cap_a as usize), real_st3::fifo::Worker::<u16>::new(c.cap_b as usize)];
    let sa = [st3::fifo::Worker::<u16>::new(c.cap_a as usize), st3::fifo::Worker::<u16>::new(c.cap_b as usize)];
    let rinj = real_deque::Injector::<u16>::new();
    let sinj = crossbeam_deque::Injector::<u16>::new();
    let mut steals = 0;
    let mut fulls = 0;
    let mut o = Outcome::pass();
    for (i, op) in c.ops.iter().enumerate() {
        let (a, b): (String, String) = match *op {
            COp::Push { w, x } => {
                let r = ra[w as usize].push(x);
                let s = sa[w as usize].push(x);
                if r.is_err() {
                    fulls += 1;
                }
                (format!("{r:?}"), format!("{s:?}"))
            }
            COp::Pop { w } => (format!("{:?}", ra[w as usize].pop()), format!("{:?}", sa[w as usize].pop())),
            COp::Steal { from_a, count } => {
                let (f, t) = if from_a { (0, 1) } else { (1, 0) };
                let mut seen_r = 0;
                let mut seen_s = 0;
                let r = ra[f].stealer().steal(&ra[t], |n| {
                    seen_r = n;
                    count as usize
                });
                let s = sa[f].stealer().steal(&sa[t], |n| {
                    seen_s = n;
                    count as usize
                });
                if r.is_ok() {
                    steals += 1;
                }
                (
                    format!("{:?}/{seen_r}", r.map_err(|e| format!("{e:?}"))),
                    format!("{:?}/{seen_s}", s.map_err(|e| format!("{e:?}"))),
                )
            }
            COp::Spare { w } => (
                format!("{}/{}", ra[w as usize].spare_capacity(), ra[w as usize].capacity()),
                format!("{}/{}", sa[w as usize].spare_capacity(), sa[w as usize].capacity()),
            ),
            COp::IsEmpty { w } => (format!("{}", ra[w as usize].is_empty()), format!("{}", sa[w as usize].is_empty())),
            COp::InjPush(x) => {
                rinj.push(x);
                sinj.push(x);
                (String::new(), String::new())
            }
            COp::InjSteal => {
                let r = loop {
                    match rinj.steal() {
                        real_deque::Steal::Retry => {}
                        real_deque::Steal::Empty => break None,
                        real_deque::Steal::Success(x) => break Some(x),
                    }
                };
                let s = match sinj.steal() {
                    crossbeam_deque::Steal::Success(x) => Some(x),
                    _ => None,
                };
                (format!("{r:?}"), format!("{s:?}"))
            }
        };
        if a != b {
            o.set_fail(
                "SHIM/conformance/shim-disagrees-with-real-crate",
                format!("op {i} {op:?}: real -> {a}, shim -> {b}"),
            );
            break;
        }
    }
    o.nontrivial = steals >= 1 && fulls >= 1;
    o.class_if(steals >= 1, "successful-steal").class_if(fulls >= 1, "push-to-full-ring")
}

pub fn run(args: &Args, property: &str) -> Stats {
    let cfg = RunCfg {
        property,
        sub: "shimconf",
        rule: "random single-threaded op sequences (push/pop/steal(count)/spare/is_empty on two rings of capacity 1..9, injector push/steal) executed on real st3 + crossbeam-deque and on the shims, all observable results compared; non-trivial = a successful steal and a push to a full ring occurred",
        seed: args.seed,
        cases: args.cases(4_000, 100_000),
        shards: 4,
        max_shrink_iters: 2000,
    };
    vkit::run_prop(&cfg, strat, exec)
}

//! vqshim — the two queue source files of the repository under test, compiled unchanged
//! (one import path rewritten by build.rs) against shim `Injector` / `Worker` / atomics /
//! `rand`, under a harness-owned deterministic scheduler.
//!
//! Engines:  C03 (no loss / duplication / exact shared length under generated schedules),
//!           C04 (every public call ends within a step bound from every reachable state).

pub mod shim {
    pub use shim_sched::atomic;
    pub use shim_sched::sync;
}

#[allow(warnings, clippy::all)]
pub mod work_steal {
    include!(concat!(env!("OUT_DIR"), "/work_steal.rs"));
}
#[allow(warnings, clippy::all)]
pub mod ordered_work_steal {
    include!(concat!(env!("OUT_DIR"), "/ordered_work_steal.rs"));
}

mod conf;
mod run;

use proptest::prelude::*;
use run::{Case, RunOut, TOp};
use serde_json::json;
use std::collections::{BTreeMap, HashSet};
use std::time::Duration;
use vkit::{Args, Evidence, Outcome, RunCfg, Stats};

fn top(w: (u32, u32, u32, u32)) -> impl Strategy<Value = TOp> {
    prop_oneof![
        w.0 => (0u8..4).prop_map(TOp::LPush),
        w.1 => Just(TOp::LPop),
        w.2 => (0u8..4).prop_map(TOp::SPush),
        w.3 => Just(TOp::SPop),
    ]
}

/// like `top`, plus pushes into another logical thread's local queue (what task submitters do)
fn top_foreign() -> impl Strategy<Value = TOp> {
    prop_oneof![
        4 => (0u8..4).prop_map(TOp::LPush),
        5 => Just(TOp::LPop),
        2 => (0u8..4).prop_map(TOp::SPush),
        2 => Just(TOp::SPop),
        5 => (0u8..3, 0u8..4).prop_map(|(d, p)| TOp::FPush(d, p)),
    ]
}

fn case_mt(max_ops: usize, max_threads: usize) -> impl Strategy<Value = Case> {
    case_mt_with(max_ops, max_threads, false)
}

/// `foreign`: threads also push into each other's local queues
fn case_mt_with(max_ops: usize, max_threads: usize, foreign: bool) -> impl Strategy<Value = Case> {
    (
        any::<bool>(),
        prop_oneof![Just(1u8), Just(2u8), Just(3u8), Just(4u8), Just(8u8)],
        proptest::collection::vec(proptest::collection::vec(if foreign { top_foreign().boxed() } else { top((5, 5, 3, 3)).boxed() }, 1..=max_ops), 2..=max_threads),
        proptest::collection::vec(any::<u8>(), 0..400),
        proptest::collection::vec(any::<u16>(), 0..6),
        proptest::collection::vec(prop_oneof![9 => Just(false), 1 => Just(true)], 0..12),
    )
        .prop_map(|(ordered, cap, threads, schedule, rng, retries)| {
            let mut retries = retries;
            // at most 2 injected retries
            let mut seen = 0;
            for r in retries.iter_mut() {
                if *r {
                    seen += 1;
                    if seen > 2 {
                        *r = false;
                    }
                }
            }
            Case { ordered, cap, threads, schedule, rng, retries, single: false }
        })
}

/// single OS thread, several local queues: `threads[i]` is not a thread but the list of
/// ops on local queue i; `schedule` gives the interleaving of the lists.
fn case_st(max_ops: usize) -> impl Strategy<Value = Case> {
    (
        any::<bool>(),
        prop_oneof![Just(1u8), Just(2u8), Just(4u8), Just(8u8), Just(3u8)],
        proptest::collection::vec(proptest::collection::vec(top((7, 6, 1, 1)), 1..=max_ops), 2..=4),
        proptest::collection::vec(any::<u8>(), 0..120),
        proptest::collection::vec(any::<u16>(), 0..8),
    )
        .prop_map(|(ordered, cap, threads, schedule, rng)| Case {
            ordered,
            cap,
            threads,
            schedule,
            rng,
            retries: vec![],
            single: true,
        })
}

fn kind(c: &Case) -> &'static str {
    if c.ordered {
        "ordered"
    } else {
        "plain"
    }
}

/// C03 oracle over one execution.
fn judge_c03(c: &Case, out: &RunOut) -> Outcome {
    let k = kind(c);
    let nt = out.counters.stale_stores >= 1 || out.counters.steals_ok >= 1 || out.overflowed || out.switches >= 4 || out.foreign_pushes >= 1;
    let mut o = Outcome::pass()
        .nt(nt)
        .class_if(out.counters.stale_stores >= 1, "foreign-store-between-load-and-store")
        .class_if(out.counters.steals_ok >= 1, "steal")
        .class_if(out.overflowed, "overflow-to-shared")
        .class_if(out.counters.injector_retries >= 1, "injected-retry")
        .class_if(out.switches >= 4, "4+context-switches")
        .class_if(c.ordered, "ordered-queue")
        .class_if(!c.ordered, "plain-queue");
    o = o.class_if(out.foreign_pushes >= 1, "push-into-another-threads-local-queue").class_if(out.lock_contended >= 1, "owner-lock-contended");
    if out.owner_overlaps > 0 {
        let (a, b) = out.overlap_pair.clone().unwrap_or_else(|| ("?".into(), "?".into()));
        let mut pair = [a, b];
        pair.sort();
        o.set_fail(
            format!("C03/{k}/two-owners-of-one-ring-at-once/{}+{}", pair[0], pair[1]),
            format!(
                "{} owner-side operations of one local ring overlapped (first: `{}` next to `{}`); the ring supports one owner at a time -- in the real ring push/pop/steal-into overlaps lose or duplicate items, and spare_capacity next to a push underflows ({} pushes went into another thread's local queue)",
                out.owner_overlaps, pair[0], pair[1], out.foreign_pushes
            ),
        );
        return o;
    }
    if let Some((t, op, what)) = &out.panic {
        if what == "budget" {
            // non-termination is C04's property; do not judge conservation of a cut run
            o.excluded = Some("cut-by-step-bound(C04)");
            return o;
        }
        o.set_fail(
            format!("C03/{k}/panic-in-queue-code"),
            format!("thread {t} op {op}: {what}"),
        );
        return o;
    }
    let pushed: HashSet<u32> = out.pushed.iter().copied().collect();
    let mut seen: HashSet<u32> = HashSet::new();
    for (who, id) in out.popped.iter().map(|x| ("pop", *x)).chain(out.drained.iter().map(|x| ("drain", *x))) {
        if !pushed.contains(&id) {
            o.set_fail(format!("C03/{k}/popped-item-never-pushed"), format!("{who} returned item {id}"));
            return o;
        }
        if !seen.insert(id) {
            o.set_fail(format!("C03/{k}/item-popped-twice"), format!("item {id} was returned twice ({who})"));
            return o;
        }
    }
    if out.reported_len as i64 != out.true_shared {
        o.set_fail(
            format!("C03/{k}/shared-len-differs-from-content"),
            format!(
                "after all threads stopped the shared queue reports len()={} but holds {} item(s)",
                out.reported_len, out.true_shared
            ),
        );
        return o;
    }
    if seen.len() != pushed.len() {
        let missing: Vec<u32> = pushed.difference(&seen).copied().collect();
        let what = if out.left_in_rings + out.left_in_injectors > 0 { "stranded" } else { "lost" };
        o.set_fail(
            format!("C03/{k}/items-{what}-after-drain"),
            format!(
                "draining every queue through the public API returned {} of {} outstanding items; missing {:?}; still inside: {} in rings, {} in the shared queue",
                out.drained.len(),
                pushed.len() - out.popped.len(),
                missing,
                out.left_in_rings,
                out.left_in_injectors
            ),
        );
    }
    o
}

/// C04 oracle over one execution (budget armed).
fn judge_c04(c: &Case, out: &RunOut) -> Outcome {
    let k = kind(c);
    let mut o = Outcome::pass()
        .nt(out.push_after_victim)
        .class_if(out.push_after_victim, "push-to-former-victim")
        .class_if(out.counters.steals_ok >= 1, "steal")
        .class_if(out.overflowed, "overflow-to-shared")
        .class_if(c.ordered, "ordered-queue")
        .class_if(!c.ordered, "plain-queue")
        .class_if(!c.single, "two-thread-schedule");
    if let Some((t, op, what)) = &out.panic {
        if what == "budget" {
            let opname = out.panic_op.clone().unwrap_or_default();
            o.set_fail(
                format!("C04/{k}/{opname}/step-bound-exceeded"),
                format!(
                    "{} {t} op #{op} ({opname}) executed more than {} shim steps without returning (capacity {}, {} items live)",
                    if c.single { "queue" } else { "thread" },
                    out.budget,
                    c.cap,
                    out.live_at_panic
                ),
            );
        }
        // other panics are C03's business
    }
    o
}

fn exhaustive_programs() -> Vec<(&'static str, Vec<Vec<TOp>>)> {
    use TOp::*;
    vec![
        ("spush||spush", vec![vec![SPush(2)], vec![SPush(2)]]),
        ("spush||spop", vec![vec![SPush(2)], vec![SPush(1), SPop]]),
        ("lpush||lpop-steal", vec![vec![LPush(2), LPush(2)], vec![LPop]]),
        ("spush,spop||spush", vec![vec![SPush(2), SPop], vec![SPush(0)]]),
    ]
}

/// Stateless DFS over all schedules of a tiny program. Returns stats (exhaustive=true).
fn exhaustive(prop: &str, programs: &[(&'static str, Vec<Vec<TOp>>)], judge: fn(&Case, &RunOut) -> Outcome, budget: u64, limit: u64) -> Stats {
    let mut st = Stats::new("exhaustive", "every schedule (all interleavings of shim steps) of fixed tiny 2-thread programs, both queue types; non-trivial = >=1 context switch inside a call");
    st.exhaustive = true;
    let known = vkit::Known::load(prop);
    'outer: for ordered in [true, false] {
        for (_name, prog) in programs {
            let mut prefix: Vec<u8> = vec![];
            let mut count = 0u64;
            loop {
                let c = Case { ordered, cap: 2, threads: prog.clone(), schedule: vec![], rng: vec![], retries: vec![], single: false };
                let out = run::run_case(&c, budget, Some(prefix.clone()));
                let mut o = judge(&c, &out);
                o.nontrivial = out.switches >= 1;
                let mut casej = serde_json::to_value(&c).unwrap();
                casej["forced"] = json!(prefix);
                if let Some((sig, msg)) = o.fail.clone() {
                    if known.is_known(&sig).is_some() {
                        *st.known_hits.entry(sig.clone()).or_default() += 1;
                        st.known_samples.entry(sig).or_insert_with(|| json!({"case": casej, "message": msg}));
                        o.fail = None;
                    } else if st.violations.len() < 3 {
                        st.violations.push(vkit::Violation { sub: "exhaustive".into(), signature: sig, message: msg, case: casej.clone(), replay: None });
                    }
                }
                let fp = vkit::hash64(&casej.to_string());
                st.record(|| casej.clone(), fp, prefix.len(), &o);
                count += 1;
                // next schedule
                let tr = out.trace;
                let mut i = tr.len();
                let mut next: Option<Vec<u8>> = None;
                while i > 0 {
                    i -= 1;
                    if tr[i].0 + 1 < tr[i].1 {
                        let mut p: Vec<u8> = tr[..i].iter().map(|x| x.0).collect();
                        p.push(tr[i].0 + 1);
                        next = Some(p);
                        break;
                    }
                }
                match next {
                    Some(p) => prefix = p,
                    None => break,
                }
                if count >= limit {
                    st.exhaustive = false;
                    st.notes.push(format!("program cut at {limit} schedules"));
                    continue 'outer;
                }
            }
            *st.classes.entry("programs-fully-enumerated".into()).or_default() += 1;
        }
    }
    st
}

fn main_c03(args: &Args) -> i32 {
    vkit::hang::start_monitor("C03", args.tier, args.seed, Duration::from_secs(60));
    if let Some(p) = &args.replay {
        let (_, _sub, case) = vkit::load_replay(p);
        let forced: Option<Vec<u8>> = case.get("forced").and_then(|f| serde_json::from_value(f.clone()).ok());
        let c: Case = serde_json::from_value(case).expect("case");
        let out = run::run_case(&c, 20_000, forced);
        return vkit::replay_verdict("C03", p, &judge_c03(&c, &out));
    }
    let mut ev = Evidence::new("C03", args, "exploration");
    ev.assume("crossbeam_deque::Injector, st3::fifo::Worker/Stealer and crossbeam_skiplist::SkipMap are linearizable objects with their documented semantics (the shims; shim-vs-real agreement is itself tested in sub-run `shimconf`)");
    ev.assume("only sequentially consistent interleavings at the granularity of one shim operation are explored (no weak-memory reorderings)");
    ev.add(conf::run(args, "C03"));
    ev.add(vkit::run_regress("C03", |_sub, case| {
        let forced: Option<Vec<u8>> = case.get("forced").and_then(|f| serde_json::from_value(f.clone()).ok());
        let c: Case = serde_json::from_value(case).expect("case");
        let out = run::run_case(&c, 20_000, forced);
        judge_c03(&c, &out)
    }));
    let cfg = |sub: &'static str, rule: &'static str, cases: u32| RunCfg { property: "C03", sub, rule, seed: args.seed, cases, shards: 8, max_shrink_iters: 3000 };
    ev.add(vkit::run_prop(
        &cfg("sched", "2..3 logical threads, each owning a local queue, <=8 ops each over {LocalPush,LocalPop,SharedPush,SharedPop}, capacity in {1,2,3,4,8}, 4 priorities incl. i64 extremes, a generated schedule (<=400 picks), steal start indices, <=2 injected Steal::Retry; non-trivial = a foreign store fell between a thread's load and its store of one counter, or a steal, or an overflow to the shared queue, or >=4 context switches", args.cases(16_000, 600_000)),
        || case_mt(8, 3),
        |c| {
            let out = run::run_case(c, 20_000, None);
            judge_c03(c, &out)
        },
    ));
    ev.add(vkit::run_prop(
        &cfg("submitters", "as `sched`, but the threads also push into each other's local queues (what task submitters do to a pool's queue); the ring shim counts owner operations (push, pop, steal-into) of one ring that overlap -- the ring supports one owner at a time; non-trivial as above or a push into another thread's queue", args.cases(8_000, 300_000)),
        || case_mt_with(8, 3, true),
        |c| {
            let out = run::run_case(c, 60_000, None);
            judge_c03(c, &out)
        },
    ));
    let progs = exhaustive_programs();
    let n = args.tier.pick(2, progs.len());
    ev.add(exhaustive("C03", &progs[..n], judge_c03, 20_000, args.tier.pick(30_000, 2_000_000) as u64));
    ev.finish()
}

fn main_c04(args: &Args) -> i32 {
    vkit::hang::start_monitor("C04", args.tier, args.seed, Duration::from_secs(60));
    if let Some(p) = &args.replay {
        let (_, _sub, case) = vkit::load_replay(p);
        let forced: Option<Vec<u8>> = case.get("forced").and_then(|f| serde_json::from_value(f.clone()).ok());
        let c: Case = serde_json::from_value(case).expect("case");
        let out = run::run_case(&c, run::c04_budget(&c), forced);
        return vkit::replay_verdict("C04", p, &judge_c04(&c, &out));
    }
    let mut ev = Evidence::new("C04", args, "exploration");
    ev.assume("step bound per public call: 16*(sum of ring capacities + live items + 8) shim operations; a correct call needs O(capacity + number of queues) of them");
    ev.assume("shims as in C03 (linearizable containers, SC interleavings)");
    ev.add(conf::run(args, "C04"));
    ev.add(vkit::run_regress("C04", |_sub, case| {
        let forced: Option<Vec<u8>> = case.get("forced").and_then(|f| serde_json::from_value(f.clone()).ok());
        let c: Case = serde_json::from_value(case).expect("case");
        let out = run::run_case(&c, run::c04_budget(&c), forced);
        judge_c04(&c, &out)
    }));
    let cfg = |sub: &'static str, rule: &'static str, cases: u32| RunCfg { property: "C04", sub, rule, seed: args.seed, cases, shards: 8, max_shrink_iters: 4000 };
    ev.add(vkit::run_prop(
        &cfg("hist", "single-threaded histories over one shared and 2..4 local queues (both queue types), <=16 ops per queue, capacity in {1,2,3,4,8}; every public call runs under the step bound; non-trivial = a local queue is pushed to after a sibling stole from it", args.cases(20_000, 800_000)),
        || case_st(16),
        |c| {
            let out = run::run_case(c, run::c04_budget(c), None);
            judge_c04(c, &out)
        },
    ));
    ev.add(vkit::run_prop(
        &cfg("sched", "2..3 logical threads under a generated schedule (as C03), every public call under the step bound (only the caller's own steps count); non-trivial = push to a former victim", args.cases(8_000, 300_000)),
        || case_mt(10, 3),
        |c| {
            let out = run::run_case(c, run::c04_budget(c), None);
            judge_c04(c, &out)
        },
    ));
    ev.finish()
}

fn main() {
    let args = Args::parse();
    // BudgetExhausted panics are expected control flow: keep stderr quiet
    std::panic::set_hook(Box::new(|info| {
        if info.payload().downcast_ref::<shim_sched::BudgetExhausted>().is_some() {
            return;
        }
        if std::env::var_os("VQSHIM_VERBOSE").is_some() {
            eprintln!("panic: {info}");
        }
    }));
    let code = match args.engine.as_str() {
        "C03" => main_c03(&args),
        "C04" => main_c04(&args),
        other => {
            eprintln!("unknown engine {other}");
            2
        }
    };
    let _ = BTreeMap::<u8, u8>::new();
    std::process::exit(code);
}

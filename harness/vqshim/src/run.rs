//! Executes one generated case against the real queue code on shims.

use crate::ordered_work_steal::{OrderedLocalQueue, OrderedWorkStealQueue};
use crate::work_steal::{LocalQueue, WorkStealQueue};
use serde::{Deserialize, Serialize};
use shim_sched::{Counters, Sched};
use std::sync::atomic::{AtomicBool, AtomicI64, AtomicUsize, Ordering};
use std::sync::{Arc, Mutex};

#[derive(Debug, Clone, Copy, Serialize, Deserialize, PartialEq, Eq)]
pub enum TOp {
    /// push to the thread's own local queue, priority index 0..4
    LPush(u8),
    LPop,
    SPush(u8),
    SPop,
    /// push into the local queue of ANOTHER logical thread (target = (this + 1 + d) mod n),
    /// priority index: what a task submitter does to a pool's queue
    FPush(u8, u8),
}

impl TOp {
    pub fn name(self) -> &'static str {
        match self {
            TOp::LPush(_) => "local-push",
            TOp::LPop => "local-pop",
            TOp::SPush(_) => "shared-push",
            TOp::SPop => "shared-pop",
            TOp::FPush(..) => "foreign-local-push",
        }
    }
}

#[derive(Debug, Clone, Serialize, Deserialize)]
pub struct Case {
    pub ordered: bool,
    pub cap: u8,
    /// one op list per logical thread / per local queue
    pub threads: Vec<Vec<TOp>>,
    pub schedule: Vec<u8>,
    pub rng: Vec<u16>,
    pub retries: Vec<bool>,
    /// true: one OS thread, `schedule` interleaves the op lists (ops are atomic);
    /// false: logical threads under the shim scheduler (shim steps interleave)
    #[serde(default)]
    pub single: bool,
}

const PRIOS: [i64; 4] = [i64::MIN, -1, 0, i64::MAX];

#[derive(Debug, Default)]
pub struct RunOut {
    pub pushed: Vec<u32>,
    pub popped: Vec<u32>,
    pub drained: Vec<u32>,
    /// (thread, op index, "budget" | panic message)
    pub panic: Option<(usize, usize, String)>,
    pub panic_op: Option<String>,
    pub live_at_panic: i64,
    pub counters: Counters,
    pub switches: u64,
    pub overflowed: bool,
    pub reported_len: usize,
    pub true_shared: i64,
    pub left_in_rings: i64,
    pub left_in_injectors: i64,
    pub trace: Vec<(u8, u8)>,
    pub push_after_victim: bool,
    pub budget: u64,
    /// owner operations of one ring that overlapped (st3 allows one owner at a time)
    pub owner_overlaps: i64,
    /// the first pair of overlapping owner operations (e.g. ("push", "spare_capacity"))
    pub overlap_pair: Option<(String, String)>,
    pub foreign_pushes: u64,
    pub lock_contended: u64,
}

pub fn c04_budget(c: &Case) -> u64 {
    let cap = (c.cap.max(1) as usize).next_power_of_two() as u64;
    let queues = c.threads.len() as u64;
    let live: u64 = c.threads.iter().map(|t| t.len() as u64).sum();
    // priorities: the ordered queue keeps one ring per (queue, priority) => 4 per queue
    16 * (cap * queues * 4 + live + 8)
}

enum Shared {
    Ordered(&'static OrderedWorkStealQueue<u32>),
    Plain(&'static WorkStealQueue<u32>),
}
enum Local {
    Ordered(OrderedLocalQueue<'static, u32>),
    Plain(LocalQueue<'static, u32>),
}
// the queue code shares these across threads in the runtime (via beans + unsafe); the shim
// containers are Sync, so this is sound here
unsafe impl Send for Local {}
unsafe impl Sync for Local {}

impl Shared {
    fn push(&self, p: u8, id: u32) {
        match self {
            Shared::Ordered(s) => s.push_with_priority(PRIOS[(p % 4) as usize], id),
            Shared::Plain(s) => s.push(id),
        }
    }
    fn pop(&self) -> Option<u32> {
        match self {
            Shared::Ordered(s) => s.pop(),
            Shared::Plain(s) => s.pop(),
        }
    }
    fn len(&self) -> usize {
        match self {
            Shared::Ordered(s) => s.len(),
            Shared::Plain(s) => s.len(),
        }
    }
}
impl Local {
    fn push(&self, p: u8, id: u32) {
        match self {
            Local::Ordered(l) => l.push_with_priority(PRIOS[(p % 4) as usize], id),
            Local::Plain(l) => l.push(id),
        }
    }
    fn pop(&self) -> Option<u32> {
        match self {
            Local::Ordered(l) => l.pop(),
            Local::Plain(l) => l.pop(),
        }
    }
}

fn panic_kind(e: Box<dyn std::any::Any + Send>) -> String {
    if e.downcast_ref::<shim_sched::BudgetExhausted>().is_some() {
        "budget".into()
    } else if let Some(s) = e.downcast_ref::<&'static str>() {
        (*s).to_string()
    } else if let Some(s) = e.downcast_ref::<String>() {
        s.clone()
    } else {
        "panic".into()
    }
}

struct SharedState {
    pushed: Mutex<Vec<u32>>,
    popped: Mutex<Vec<u32>>,
    origin: Mutex<std::collections::HashMap<u32, usize>>,
    victim: Vec<AtomicBool>,
    push_after_victim: AtomicBool,
    panic: Mutex<Option<(usize, usize, String, String, i64)>>,
    counters: Mutex<Counters>,
    shared_pushes_direct: AtomicUsize,
    foreign_pushes: AtomicUsize,
    overlap_pair: Mutex<Option<(String, String)>>,
}

fn do_op(
    t: usize,
    k: usize,
    op: TOp,
    shared: &Shared,
    locals: &[Local],
    st: &SharedState,
    budget: u64,
    live: &AtomicI64,
) -> bool {
    let id = (t as u32) * 1000 + k as u32;
    let local = &locals[t];
    shim_sched::set_budget(budget);
    let r = std::panic::catch_unwind(std::panic::AssertUnwindSafe(|| match op {
        TOp::LPush(p) => {
            if st.victim[t].load(Ordering::SeqCst) {
                st.push_after_victim.store(true, Ordering::SeqCst);
            }
            st.pushed.lock().unwrap().push(id);
            st.origin.lock().unwrap().insert(id, t);
            live.fetch_add(1, Ordering::SeqCst);
            local.push(p, id);
        }
        TOp::FPush(d, p) => {
            let n = locals.len();
            let target = if n > 1 { (t + 1 + usize::from(d) % (n - 1)) % n } else { t };
            st.pushed.lock().unwrap().push(id);
            st.origin.lock().unwrap().insert(id, target);
            st.foreign_pushes.fetch_add(1, Ordering::SeqCst);
            live.fetch_add(1, Ordering::SeqCst);
            locals[target].push(p, id);
        }
        TOp::SPush(p) => {
            st.pushed.lock().unwrap().push(id);
            st.origin.lock().unwrap().insert(id, usize::MAX);
            st.shared_pushes_direct.fetch_add(1, Ordering::SeqCst);
            live.fetch_add(1, Ordering::SeqCst);
            shared.push(p, id);
        }
        TOp::LPop => {
            if let Some(x) = local.pop() {
                live.fetch_sub(1, Ordering::SeqCst);
                st.popped.lock().unwrap().push(x);
                if let Some(o) = st.origin.lock().unwrap().get(&x).copied() {
                    if o != usize::MAX && o != t {
                        if let Some(v) = st.victim.get(o) {
                            v.store(true, Ordering::SeqCst);
                        }
                    }
                }
            }
        }
        TOp::SPop => {
            if let Some(x) = shared.pop() {
                live.fetch_sub(1, Ordering::SeqCst);
                st.popped.lock().unwrap().push(x);
            }
        }
    }));
    shim_sched::clear_budget();
    match r {
        Ok(()) => true,
        Err(e) => {
            let mut g = st.panic.lock().unwrap();
            if g.is_none() {
                *g = Some((t, k, panic_kind(e), op.name().to_string(), live.load(Ordering::SeqCst)));
            }
            false
        }
    }
}

pub fn run_case(c: &Case, budget: u64, forced: Option<Vec<u8>>) -> RunOut {
    let n = c.threads.len().max(1);
    let cap = c.cap.max(1) as usize;
    let inj = Arc::new(AtomicI64::new(0));
    let rings = Arc::new(AtomicI64::new(0));
    let overlaps = Arc::new(AtomicI64::new(0));
    crossbeam_deque::set_group(Some(inj.clone()));
    st3::fifo::set_group(Some(rings.clone()));
    st3::fifo::set_overlap_counter(Some(overlaps.clone()));
    shim_sched::reset_thread_state();
    let (shared, locals): (Shared, Vec<Local>) = if c.ordered {
        let s: &'static OrderedWorkStealQueue<u32> = Box::leak(Box::new(OrderedWorkStealQueue::new(n, cap)));
        (Shared::Ordered(s), (0..n).map(|_| Local::Ordered(s.local_queue())).collect())
    } else {
        let s: &'static WorkStealQueue<u32> = Box::leak(Box::new(WorkStealQueue::new(n, cap)));
        (Shared::Plain(s), (0..n).map(|_| Local::Plain(s.local_queue())).collect())
    };
    let st = SharedState {
        pushed: Mutex::default(),
        popped: Mutex::default(),
        origin: Mutex::default(),
        victim: (0..n).map(|_| AtomicBool::new(false)).collect(),
        push_after_victim: AtomicBool::new(false),
        panic: Mutex::new(None),
        counters: Mutex::default(),
        shared_pushes_direct: AtomicUsize::new(0),
        foreign_pushes: AtomicUsize::new(0),
        overlap_pair: Mutex::new(None),
    };
    let live = AtomicI64::new(0);
    let mut out = RunOut { budget, ..Default::default() };

    if c.single {
        shim_sched::set_rng_script(c.rng.clone());
        shim_sched::set_retry_script(c.retries.clone());
        let mut pos = vec![0usize; n];
        let mut sp = 0usize;
        loop {
            let run: Vec<usize> = (0..n).filter(|i| pos[*i] < c.threads[*i].len()).collect();
            if run.is_empty() {
                break;
            }
            let b = c.schedule.get(sp).copied().unwrap_or(0);
            sp += 1;
            let t = run[(b as usize * run.len()) >> 8];
            let k = pos[t];
            pos[t] += 1;
            if !do_op(t, k, c.threads[t][k], &shared, &locals, &st, budget, &live) {
                break;
            }
        }
        let cs = shim_sched::take_local_counters();
        *st.counters.lock().unwrap() = cs;
    } else {
        let sched = Sched::new(n, c.schedule.clone(), forced);
        std::thread::scope(|sc| {
            for (t, ops) in c.threads.iter().enumerate() {
                let sched = sched.clone();
                let (inj, rings, overlaps) = (inj.clone(), rings.clone(), overlaps.clone());
                let (shared, locals, st, live) = (&shared, &locals, &st, &live);
                let (rng, retries) = (c.rng.clone(), c.retries.clone());
                sc.spawn(move || {
                    crossbeam_deque::set_group(Some(inj));
                    st3::fifo::set_group(Some(rings));
                    st3::fifo::set_overlap_counter(Some(overlaps));
                    shim_sched::reset_thread_state();
                    shim_sched::set_rng_script(rng);
                    shim_sched::set_retry_script(retries);
                    sched.enter(t);
                    for (k, op) in ops.iter().enumerate() {
                        if !do_op(t, k, *op, shared, locals, st, budget, live) {
                            sched.abort();
                            break;
                        }
                    }
                    sched.leave(t);
                    let cs = shim_sched::take_local_counters();
                    let mut g = st.counters.lock().unwrap();
                    g.steps += cs.steps;
                    g.stale_stores += cs.stale_stores;
                    g.steals_ok += cs.steals_ok;
                    g.injector_pushes += cs.injector_pushes;
                    g.injector_retries += cs.injector_retries;
                    g.ring_push_full += cs.ring_push_full;
                    g.lock_contended += cs.lock_contended;
                    if let Some((a, b)) = st3::fifo::take_overlap_pair() {
                        st.overlap_pair.lock().unwrap().get_or_insert((a.to_string(), b.to_string()));
                    }
                    crossbeam_deque::set_group(None);
                    st3::fifo::set_group(None);
                    st3::fifo::set_overlap_counter(None);
                });
            }
        });
        out.switches = sched.switches();
        out.trace = sched.trace();
    }

    out.counters = st.counters.lock().unwrap().clone();
    out.owner_overlaps = overlaps.load(Ordering::SeqCst);
    out.overlap_pair = st.overlap_pair.lock().unwrap().clone();
    out.foreign_pushes = st.foreign_pushes.load(Ordering::SeqCst) as u64;
    out.lock_contended = out.counters.lock_contended;
    out.pushed = st.pushed.lock().unwrap().clone();
    out.popped = st.popped.lock().unwrap().clone();
    out.push_after_victim = st.push_after_victim.load(Ordering::SeqCst);
    out.overflowed = out.counters.injector_pushes as usize > st.shared_pushes_direct.load(Ordering::SeqCst);
    if let Some((t, k, what, opname, livep)) = st.panic.lock().unwrap().clone() {
        out.panic = Some((t, k, what));
        out.panic_op = Some(opname);
        out.live_at_panic = livep;
    }

    // quiescent observations + drain through the public API (main thread, no scheduler)
    shim_sched::reset_thread_state();
    let mut stranded = true;
    if out.panic.is_none() {
        out.true_shared = inj.load(Ordering::SeqCst);
        shim_sched::set_budget(1_000_000);
        let r = std::panic::catch_unwind(std::panic::AssertUnwindSafe(|| {
            let reported = shared.len();
            let mut drained = vec![];
            for _round in 0..2 {
                for l in &locals {
                    while let Some(x) = l.pop() {
                        drained.push(x);
                    }
                }
                while let Some(x) = shared.pop() {
                    drained.push(x);
                }
            }
            (reported, drained)
        }));
        shim_sched::clear_budget();
        match r {
            Ok((reported, drained)) => {
                out.reported_len = reported;
                out.drained = drained;
            }
            Err(e) => {
                out.panic = Some((usize::MAX, 0, panic_kind(e)));
                out.panic_op = Some("drain".into());
            }
        }
        out.left_in_rings = rings.load(Ordering::SeqCst);
        out.left_in_injectors = inj.load(Ordering::SeqCst);
        stranded = out.left_in_rings != 0 || out.left_in_injectors != 0 || out.panic.is_some();
    }
    // the queues' Drop impls assert emptiness: only drop what is provably empty
    if stranded {
        std::mem::forget(locals);
    } else {
        drop(locals);
        match shared {
            Shared::Ordered(s) => unsafe { drop(Box::from_raw(std::ptr::from_ref(s).cast_mut())) },
            Shared::Plain(s) => unsafe { drop(Box::from_raw(std::ptr::from_ref(s).cast_mut())) },
        }
    }
    crossbeam_deque::set_group(None);
    st3::fifo::set_group(None);
    st3::fifo::set_overlap_counter(None);
    out
}

#!/bin/bash
# Runs every registered thorough command once (evidence redirected) and prints one line per check.
cd "$(dirname "$0")/.."
export VERIF_EVIDENCE_DIR=${VERIF_EVIDENCE_DIR:-/tmp/thorough-evidence}
mkdir -p $VERIF_EVIDENCE_DIR
IDS="$@"
[ -z "$IDS" ] && IDS=$(python3 -c "import json;print(' '.join(c['property_id'] for c in json.load(open('MANIFEST.json'))['checks']))")
./check setup > /tmp/thorough-setup.log 2>&1 || { echo "setup failed"; tail -5 /tmp/thorough-setup.log; }
for c in $IDS; do
  s=$(date +%s)
  VERIF_SEED=${VERIF_SEED:-1} timeout 7200 ./check $c thorough > /tmp/thorough-$c.log 2>&1; rc=$?
  echo "$c exit=$rc $(( $(date +%s) - s ))s $(grep -a -m1 '^OK\|^VIOLATION' /tmp/thorough-$c.log | cut -c1-160) $(grep -a -c '^KNOWN-FINDING' /tmp/thorough-$c.log) known $(grep -a -c 'transient deviation' /tmp/thorough-$c.log) transient"
done

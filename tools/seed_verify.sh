#!/bin/bash
# usage: seed_verify.sh <PROP> [<check ids comma separated>]
# Confirms a seeded change produced by a sub-agent in /tmp/seed-<PROP>, copies it to
# /verif/seeded/<PROP>/, runs the registered checks against it on /repo, undoes, removes worktree.
set -u
P=$1; CHECKS=${2:-$P}; WT=/tmp/seed-$P; OUT=${SEED_OUT:-/verif/seeded/$P}
export CARGO_NET_OFFLINE=true
log() { echo "[seed $P] $*"; }
[ -f $WT/seed_out/patch.diff ] || { log "no patch.diff"; exit 2; }
cd $WT
# 1. clean apply check
git stash -q 2>/dev/null; git checkout -q -- . ; 
git apply --check seed_out/patch.diff || { log "patch does not apply on clean checkout"; exit 2; }
# 2. demo WITHOUT the change
( cd seed_out/demo && rm -rf target && cargo run --offline -q > /tmp/seed-$P-demo-clean.log 2>&1 ); CLEAN=$?
log "demo on unchanged code: exit $CLEAN"
# 3. with the change
git apply seed_out/patch.diff
( cd seed_out/demo && cargo run --offline -q > /tmp/seed-$P-demo-mut.log 2>&1 ); MUT=$?
log "demo with the change: exit $MUT"
# 4. full test suite with the change
cargo nextest run --workspace --no-fail-fast --tool-config-file pb:/w/lib/nextest.toml --profile pb --test-threads 8 --offline > /tmp/seed-$P-tests.log 2>&1; T=$?
PASSED=$(grep -a -E "Summary" /tmp/seed-$P-tests.log | tail -1)
log "cargo test with the change: exit $T ($PASSED)"
if [ $CLEAN -ne 0 ] || [ $MUT -eq 0 ] || [ $T -ne 0 ]; then log "NOT CONFIRMED"; exit 1; fi
# 5. copy
mkdir -p $OUT && rm -rf $OUT/* && cp seed_out/patch.diff $OUT/ && cp seed_out/meta.json $OUT/agent_meta.json 2>/dev/null
mkdir -p $OUT/demo && (cd seed_out/demo && tar --exclude=target -cf - .) | (cd $OUT/demo && tar xf -)
# 6. run my checks on /repo
cd /verif
# SEED_NS=1: leave /repo alone (something else is using it) and run the checks in a private mount
# namespace in which /repo is the scratch worktree with the change applied
if [ -z "${SEED_NS:-}" ]; then
  [ -z "$(git -C /repo status --porcelain)" ] || { log "/repo dirty"; exit 2; }
  git -C /repo apply $OUT/patch.diff || { log "patch does not apply to /repo HEAD"; exit 2; }
fi
RES=""
for c in ${CHECKS//,/ }; do
  s=$(date +%s)
  if [ -n "${SEED_NS:-}" ]; then
    # own copy of the harness (own target directories): cargo decides freshness by mtime, so the
    # real /verif/harness/target must never be built against a tree whose files are older than
    # its outputs; here every source file of the scratch tree is touched before building
    NSV=/tmp/nsverif
    mkdir -p $NSV && rsync -a --delete --exclude 'target*' --exclude '/evidence' --exclude '/replays' --exclude '.git' /verif/ $NSV/
    find $WT/core $WT/hook $WT/open-coroutine $WT/macros -name '*.rs' -print0 | xargs -0 touch
    unshare -m bash -c "mount --bind $WT /repo && cd $NSV && VERIF_EVIDENCE_DIR=/tmp/verif-mut-evidence ./check $c quick" > /tmp/seed-$P-check-$c.log 2>&1; rc=$?
  else
    VERIF_EVIDENCE_DIR=/tmp/verif-mut-evidence ./check $c quick > /tmp/seed-$P-check-$c.log 2>&1; rc=$?
  fi
  e=$(( $(date +%s) - s ))
  RES="$RES $c:exit$rc:${e}s"
  log "check $c quick -> exit $rc (${e}s) $(grep -m1 -a 'violation sub=' /tmp/seed-$P-check-$c.log | cut -c1-260)"
done
[ -z "${SEED_NS:-}" ] && git -C /repo checkout -- .
git clean -fdq replays/ 2>/dev/null
echo "$RES" > $OUT/check_results.txt
log "confirmed; results:$RES"

#!/bin/bash
# Re-runs every kept seeded change against the current checks: applies seeded/<P>/patch.diff to
# /repo (working tree only), runs the quick check of <P> (evidence redirected), reverts.
# Writes seeded/RESULTS.tsv. /repo and the harness must not be touched while this runs.
cd /verif
[ -z "$(git -C /repo status --porcelain)" ] || { echo "/repo dirty"; exit 2; }
OUT=seeded/RESULTS.tsv
echo -e "seed\tapplies\tcheck\texit\tseconds\tsignature" > $OUT
for d in seeded/*/; do
  N=$(basename $d); P=${N:0:3}
  [ -f $d/patch.diff ] || continue
  if ! git -C /repo apply --check /verif/$d/patch.diff 2>/dev/null; then
    echo -e "$N\tno (the code it changes was repaired/rewritten since)\t-\t-\t-\t-" >> $OUT; continue
  fi
  git -C /repo apply /verif/$d/patch.diff
  s=$(date +%s)
  VERIF_EVIDENCE_DIR=/tmp/verif-mut-evidence VERIF_SEED=${VERIF_SEED:-1} timeout 1500 ./check $P quick > /tmp/matrix-$P.log 2>&1; rc=$?
  e=$(( $(date +%s) - s ))
  sig=$(grep -a -m1 -o 'signature=[^ ]*' /tmp/matrix-$P.log | cut -c11-)
  echo -e "$N\tyes\t$P\t$rc\t$e\t$sig" >> $OUT
  git -C /repo checkout -- .
  git clean -fdq replays/ 2>/dev/null
done
cat $OUT

#!/bin/bash
# Regenerates /verif/evidence/*.json for every claimed check (quick tier, VERIF_SEED=1) on the
# current /repo tree and validates them. usage: regen_evidence.sh [ids...]
cd /verif
IDS="$@"
[ -z "$IDS" ] && IDS=$(python3 -c "import json;print(' '.join(c['property_id'] for c in json.load(open('MANIFEST.json'))['checks']))")
[ -z "$(git -C /repo status --porcelain)" ] || { echo "/repo dirty"; exit 2; }
bad=0
for c in $IDS; do
  s=$(date +%s)
  VERIF_SEED=${VERIF_SEED:-1} ./check $c quick > /tmp/regen-$c.log 2>&1; rc=$?
  echo "$c exit=$rc $(( $(date +%s) - s ))s $(grep -a -m1 '^OK\|^VIOLATION' /tmp/regen-$c.log | cut -c1-150) $(grep -a -c '^KNOWN-FINDING' /tmp/regen-$c.log) known"
  [ $rc -ne 0 ] && bad=1
done
python3-vt tools/validate.py | tail -2
exit $bad

#!/usr/bin/env python3
"""Prints the prompt given to a seeding sub-agent for one property (property text only)."""
import json, sys
pid = sys.argv[1]
p = next(json.loads(l) for l in open('/verif/properties.jsonl') if json.loads(l)['id'] == pid)
wt = f"/tmp/seed-{pid}"
print(f"""You are helping to evaluate a verification effort for the Rust project acl-dev/open-coroutine (a stackful coroutine runtime: work-stealing priority scheduler, coroutine pool, syscall hooking, event loops). You have your own scratch git worktree of the project at {wt} (a checkout of the current HEAD). Work ONLY inside {wt}; never touch /repo or /verif, and do not read anything under /verif.

The project is supposed to satisfy this semantic property:

  Title: {p['title']}
  Statement: {p['statement']}
  It must hold over: {p['quantifier']['text']}

Your task: write ONE realistic change (a bug a developer could plausibly introduce: a refactoring slip, an off-by-one, a dropped update, a wrong ordering, a missing re-check, two sites that each look fine alone) to the project's source under {wt} that BREAKS this property, while
  (1) the workspace still compiles (`cd {wt} && cargo build --workspace --offline`), and
  (2) the existing test suite still passes: `cd {wt} && cargo test --workspace --no-fail-fast --offline` (run it; all tests must pass with your change; if a test fails, pick a different change), and
  (3) the breakage needs something SPECIFIC to manifest -- a particular interleaving, a multi-step sequence of operations, an unusual input value, a particular fault or timing, or two cooperating sites -- NOT something ordinary use or the existing tests would expose at once.
Do not edit, delete or weaken existing tests. Do not add features/cfgs. Keep the change small (a few lines). Do not touch anything guarded by the cargo feature `verif-hooks` and do not enable that feature.

Then write a DEMONSTRATION: a small Rust integration test or example program (put it under {wt}/seed_out/demo/ as a standalone cargo project that depends on the crate(s) by path, e.g. `open-coroutine-core = {{ path = "{wt}/core" }}`; copy {wt}/Cargo.lock next to its Cargo.toml so it builds offline; use CARGO_NET_OFFLINE=true) that FAILS (non-zero exit or failing assertion) with your change applied and PASSES on the unchanged code. Verify both directions yourself: run it with the change, then `git stash` (or `git diff > patch; git checkout -- <files>`) and run it on the unchanged code, then re-apply the change. The demonstration should be deterministic or at least fail reliably (say, in >= 9 of 10 runs) with the change.

Offline sandbox: no network; only crates already in the cargo cache can be used (the project's own dependencies are available).

Deliverables, all inside {wt}/seed_out/:
  - patch.diff      : `git diff` of your source change only (paths relative to the repo root, applies with `git apply` on a clean checkout); it must NOT include seed_out/.
  - demo/           : the demonstration project (with a README line saying how to run it).
  - meta.json       : {{"property": "{pid}", "summary": "<what the change does>", "needs": "<what specific condition makes it manifest>", "files": [..], "ran": ["<commands you ran and their outcome>"]}}
Leave the working tree of {wt} with the change APPLIED at the end (plus the untracked seed_out/ directory). Do not commit.

Finally reply with a short summary: the change, why it breaks the property, what it needs to manifest, and the exact commands + results you observed for (a) cargo test with the change, (b) demo with the change, (c) demo without the change.""")

#!/usr/bin/env python3
"""Sensitivity helper: apply one textual mutation (or a patch file) to /repo, run checks,
revert.  usage:
   mut.py <checks comma-separated> <tier> --patch file.diff
   mut.py <checks> <tier> <repo-relative-file> <old> <new> [--count N]
Always reverts /repo (git checkout -- . ) afterwards, even on error.
Prints CAUGHT/MISSED per check."""
import subprocess, sys, os, time
checks = sys.argv[1].split(",")
tier = sys.argv[2]
rest = sys.argv[3:]
def sh(cmd, **kw):
    return subprocess.run(cmd, shell=True, text=True, capture_output=True, **kw)
assert sh("git -C /repo status --porcelain").stdout.strip() == "", "repo dirty"
try:
    if rest[0] == "--patch":
        r = sh(f"git -C /repo apply {rest[1]}")
        assert r.returncode == 0, r.stderr
    else:
        f, old, new = rest[0], rest[1], rest[2]
        cnt = int(rest[rest.index("--count")+1]) if "--count" in rest else 1
        p = os.path.join("/repo", f)
        s = open(p).read()
        assert s.count(old) == cnt, f"pattern occurs {s.count(old)} times"
        open(p, "w").write(s.replace(old, new))
    for c in checks:
        t = time.time()
        r = sh(f"cd /verif && VERIF_EVIDENCE_DIR=/tmp/verif-mut-evidence VERIF_SEED={os.environ.get('VERIF_SEED','0')} ./check {c} {tier}")
        viol = [l for l in r.stdout.splitlines() if l.startswith("VIOLATION")]
        tag = "CAUGHT" if r.returncode == 1 and viol else ("INCONCLUSIVE" if r.returncode == 2 else "MISSED")
        print(f"{tag} check={c} exit={r.returncode} {time.time()-t:.1f}s")
        for l in r.stderr.splitlines():
            if "violation sub=" in l or "INCONCLUSIVE" in l or "VACUOUS" in l or "error" in l.lower():
                print("   ", l[:400])
        for v in viol[:3]:
            print("   ", v)
finally:
    sh("git -C /repo checkout -- .")
    # remove replay files produced by mutant runs
    sh("cd /verif && git clean -fdq replays/ 2>/dev/null")

#!/bin/bash
# usage: tools/load.sh <spinners> <seconds>   -- synthetic CPU load for robustness runs of the checks
n=${1:-24}; secs=${2:-300}
pids=()
for i in $(seq $n); do ( end=$((SECONDS+secs)); while [ $SECONDS -lt $end ]; do :; done ) & pids+=($!); done
trap 'kill "${pids[@]}" 2>/dev/null' EXIT INT TERM
wait

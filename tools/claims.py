HOOK_COMMITS = ["77606a3"]
NOT_APPLICABLE = {}
PBT = "property-based testing (proptest, seeded, shrinking)"
CLAIMS = {
    "C03": {
        "engine": "vqshim C03",
        "technique": PBT + ": schedule-owning stateful PBT -- the queue sources compiled against shim containers/atomics, thread interleaving is part of the generated case; plus exhaustive schedule enumeration of tiny programs",
        "text": "Generated 2..3-thread programs with a generated schedule run on the real queue code over shims; oracle = conservation (each item at most once, drain returns exactly the outstanding set) and reported shared length == content. Tiny programs are enumerated over every schedule. Absence of violations is shown only for the explored schedules at shim-step granularity.",
        "note": "Trusted base: crossbeam-deque Injector, st3 ring and SkipMap are linearizable with their documented semantics (shim conformance is tested each run); sequentially consistent interleavings only; build fails (exit 2) if the import rewrite pattern drifts.",
    },
    "C04": {
        "engine": "vqshim C04",
        "technique": PBT + ": stateful histories and owned schedules over shim containers with a deterministic per-call step bound",
        "text": "Every public queue call of every generated history (single-threaded over 2..4 local queues, and 2..3-thread schedules) must return within 16*(ring capacities + live items + 8) shim operations; a spin shows up as an exact, shrinkable history without any clock.",
        "note": "Same trusted base as C03. Submission through the runtime (CoroutinePool::submit_task) is covered by the runtime engines once built; this check decides the queue layer.",
    },
    "C05": {
        "engine": "vcore C05",
        "technique": PBT + ": model-based histories on the real crate (exact location model in the no-migration regime; validity predicates for overflow/steal scenarios; pool- and scheduler-level start order)",
        "text": "Single-threaded generated histories over all of i64 (extremes, ties, 32-bit-colliding values): strict (priority, push-seq) minimum oracle where the model knows every item's queue; key preservation across overflow and steal; observed task/coroutine start order in a one-worker pool / scheduler.",
        "note": "FIFO among equals is not asserted across an overflow (documented reordering). Concurrency is out of scope here (C03).",
    },
    "C06": {
        "engine": "vcore C06",
        "technique": PBT + ": model-based histories on the real crate (61-pop fairness window; exact outstanding-count oracle for idle pops)",
        "text": "Pop-heavy generated histories keep a local queue non-empty below capacity while the shared queue holds items: never 61 consecutive locally-served pops. Arbitrary histories with overflows and steals: a pop returns Some whenever any pushed item is still outstanding. Both queue types.",
        "note": "Single-threaded, so emptiness is exact; containers trusted.",
    },
    "C07": {
        "engine": "vcore C07",
        "technique": PBT + ": model-based testing -- generated body and driver scripts interpreted against a reference model of the documented state graph and a recording Listener",
        "text": "Every API call of a generated program (suspend, timed delay, syscall-state changes legal and illegal, running(), early resumes, cancel/panic/return) has a model-predicted result and listener record; recorded events must equal the prediction (each change once, right old/new, one matching specific callback, chain, due times), state() equals the model between steps, nothing changes after a terminal state. A Scheduler sub-run covers Suspend->Ready.",
        "note": "Reference model = the graph in the statement; timing decisions keep 2-4 ms margins and skip ambiguous instants; each case on a fresh thread.",
    },
    "C08": {
        "engine": "vcore C08",
        "technique": PBT + ": round-trip oracle on generated coroutine bodies",
        "text": "Generated Coroutine<u64,u64,u64> bodies (0..40 yields over all of u64, return or panic with &str/String/other payload at any step, panicking listeners, extra resumes): the body must see exactly the resume arguments, each resume must report exactly the yielded value, completion exactly once and sticky, panic -> Error(message) without unwinding.",
        "note": "One coroutine at a time on a plain thread; payloads without a message only need Error(_).",
    },
    "C09": {
        "engine": "vcore C09",
        "technique": PBT + ": generated multi-coroutine yield programs with an exact per-yield oracle",
        "text": "2..5 coroutines x 0..6 yields (plain / until(unique ts) / cancel, in Running and in syscall state) resumed in a generated order on one thread; each Running-state yield must report exactly its own request.",
        "note": "Signal-driven cancel represented by a direct Suspender::cancel() call; fresh thread per case.",
    },
    "C10": {
        "engine": "vcore C10",
        "technique": PBT + ": generated coroutine programs x driver scripts with an event-log oracle",
        "text": "1..8 generated coroutine programs (suspend, delay, panic, return, priorities) under a generated driver (timed/untimed passes, sleeps, cancels): every result once under its own id with its own value/message, no step before its wake-up time, a pass that starts after the wake-up time and runs dry has resumed the coroutine, a cancelled coroutine never logs again.",
        "note": "One scheduler per process at a time; cancels are issued between passes; real clock with exact lower bounds (no slack needed) and no upper-bound timing claims.",
    },
    "C11": {
        "engine": "vcore C11",
        "technique": PBT + ": stateful histories on a standalone pool with liveness tokens in coroutine-local storage",
        "text": "Generated submit/pass/sleep/cancel histories (task bodies return, panic, delay, suspend): running size <= max after every step, == live worker coroutines after every pass that ran dry, 0 and prompt stop once all work is done or cancelled.",
        "note": "min_size = 0 and finite keep-alive only (an idle core worker spins inside the scheduling pass and never hands control back to a single-threaded driver); one pool per process: every history (generated, shrink candidate, regression seed, replay) runs in its own fresh child process, since pools of one process steal each other's leftover tasks and worker coroutines; a child still running after 25 s is reported as a non-returning call.",
    },
    "C12": {
        "engine": "vcore C12",
        "technique": PBT + ": stateful histories on a standalone pool with helper-thread waiters",
        "text": "Generated submit/pass/cancel/wait/wait-held-before-registering/stop(long|short) histories: states only move forward, submits after stop are rejected, stop reports success only when every accepted uncancelled task has finished, waiters are settled after stop.",
        "note": "Standalone CoroutinePool (the EventLoops stop path is exercised by the runtime engines); waiters run on helper threads sharing the pool by reference as EventLoops does; one fresh child process per history (single pool per process is an assumption of the claim, multi-pool accounting is not covered, DESIGN.md 10.1).",
    },
    "C16": {
        "engine": "vsock C16",
        "category": "fault_enumeration",
        "technique": PBT + " with fault injection: a scripted kernel (injectable inner libc function) answers generated response sequences; byte-stream model oracle",
        "text": "For generated (call, buffer shapes, kernel response script, blocking mode, socket timeout, thread/coroutine caller): the hooked call's return value must equal the bytes the scripted kernel moved (or 0 at EOF / zero length, or -1 with the failing errno when nothing moved), the caller's buffers must hold exactly the next stream bytes in order (reads) and the peer must have received exactly the first moved bytes once (writes). A process abort inside the hooked call is attributed to its case and reported.",
        "note": "The scripted inner function stands for the kernel (documented model in DESIGN.md 3.3); real AF_UNIX socketpairs provide descriptor-level behaviour; <=2 would-blocks per script (10 ms each); response sequences sampled, not exhausted.",
    },
    "C17": {
        "engine": "vsock C17",
        "category": "fault_enumeration",
        "technique": PBT + " with fault injection: scripted kernel validates every vectored inner request; poisoning/size-tracking global allocator",
        "text": "Every inner readv/writev/recvmsg/sendmsg request of every generated case is validated by the scripted kernel: each entry lies inside one caller buffer, in the untransferred suffix, ordered and disjoint, and the element count never exceeds the array really built (allocation size table + 0xA5 poison make an over-long count a decided failure, not a fault).",
        "note": "Allocation size is known for arrays the hooked code allocates while tracking is on; otherwise poison detection only.",
    },
    "C18": {
        "engine": "vsock C18",
        "category": "fault_enumeration",
        "technique": PBT + " with fault injection: scripted kernel x caller's blocking mode; fcntl differential before/after",
        "text": "All hooked socket calls incl. accept and connect, both blocking modes, all scripted outcomes, thread and coroutine callers: F_GETFL after == before always; a caller-non-blocking descriptor whose first inner call would block returns -1/EAGAIN (EINPROGRESS for connect) after exactly one inner call and without a wait slice (latency deviations must repeat 3/3 to count); a hooked call that does not return within 30 s is reported with its case.",
        "note": "The 9 ms latency bound sits below the runtime's smallest wait slice (10 ms).",
    },
    "C19": {
        "engine": "vsock C19",
        "category": "fault_enumeration",
        "technique": PBT + ": stateful histories in a fresh child process per case, differential against the kernel's getsockopt",
        "text": "Generated histories of set SO_RCVTIMEO/SO_SNDTIMEO, hooked send/recv, close and reopen over 3 socketpairs run in a fresh child; after every op the limits the hooks would apply are compared with the kernel's own option values for every live descriptor; a crash is attributed to the op in flight.",
        "note": "Timeouts are multiples of 20 ms (no jiffies rounding); descriptor-number reuse depends on the kernel handing out the lowest free number.",
    },
    "C25": {
        "engine": "vcore C25",
        "technique": PBT + ": model-based histories (HashMap model, drop-counting values)",
        "text": "put/get/get_mut/remove/drop-coroutine histories over 3 real coroutines x 4 keys against a per-coroutine HashMap model; drop counters prove every value is dropped exactly once and exactly when its owner gives it up, including at coroutine drop.",
        "note": "One value type per key.",
    },
    "C26": {
        "engine": "vcore C26",
        "technique": PBT + ": generated thread counts/offsets with a harness-owned rendezvous inside the creation window (Default::default() / hook H4)",
        "text": "2..16 real threads first-use one fresh bean name (and, in a fresh child, the factory itself); the rendezvous forces the check-then-create windows to overlap; all returned addresses and a later lookup must agree.",
        "note": "Real threads: the overlap is forced by the rendezvous and measured, not assumed; detection of other races is probabilistic.",
    },
    "C28": {
        "engine": "vcore C28",
        "technique": PBT + ": algebraic laws over boundary-biased generated Durations/timevals",
        "text": "Generated-input search: every generated Duration / (total,slice) / timeval is checked against an exact arithmetic oracle (saturating sum between two clock reads, partition law, zero-means-unlimited); a hang guard turns non-termination into a reported case. Shows absence of violations only on the generated inputs.",
        "note": "Inputs sampled, not exhausted; timeval fields non-negative; <=100000 pieces per split; clock monotone across one call.",
    },
    "C20": {
        "engine": "vcore C20",
        "technique": PBT + ": generated waiter sets, write targets/timings and poll-interrupting signals in a fresh child process per case; oracle over the hook-observed event log (resume-by-token hit/miss, wake reason Callback vs Timeout), every deviation confirmed by 3 immediate re-executions",
        "text": "1..2 event loops, 1..4 tasks blocked in hooked recv on own socketpairs, 1..3 writes to generated targets placed 1..6 ms after the target parked (inside its 10 ms wait slice), optionally after no-op signals interrupted the loop's poll. Every resume-by-token must name a coroutine that is waiting on the written descriptor and hit; the target's first resumption after the write must be by the readiness event; an unwritten waiter never sees a readiness resumption.",
        "note": "A write is judged only if it demonstrably landed inside the target's current wait slice; timing deviations that do not repeat 3/3 are counted as transient, never reported. AF_UNIX stream socketpairs, read readiness only.",
    },
    "C21": {
        "engine": "vcore C21",
        "technique": PBT + ": stateful histories in a fresh child process per case, differential against the kernel's own interest list (/proc/self/fdinfo of every epoll descriptor) after every operation",
        "text": "Histories of 1..23 ops over 3 socketpairs -- wait read/write, remove read/write/both, shutdown(RD|WR|RDWR), close, reopen (descriptor number reuse), peer write (a registered read interest fires), drain -- each issued by a plain thread or by one of two tasks; after every op the EPOLLIN/EPOLLOUT bits the kernel holds for every live descriptor must equal the model's outstanding set. One event loop is judged strictly; two event loops are explored under their own signatures (listed known finding: process-wide records vs per-loop registrations).",
        "note": "An interest is outstanding from the wait that registered it until it is removed through the runtime (a delivered event does not remove it); the union over all epoll instances of the process is compared.",
    },
}

HOOK_COMMITS = []
NOT_APPLICABLE = {}
CLAIMS = {
    "C28": {
        "engine": "vcore C28",
        "technique": "property-based testing (proptest): algebraic laws over boundary-biased generated Durations/timevals",
        "text": "Generated-input search: every generated Duration / (total,slice) / timeval is checked against an exact arithmetic oracle (saturating sum between two clock reads, partition law, zero-means-unlimited); a hang guard turns non-termination into a reported case. Shows absence of violations only on the generated inputs.",
        "note": "Inputs sampled, not exhausted; timeval fields non-negative; <=100000 pieces per split; clock monotone across one call.",
    },
}

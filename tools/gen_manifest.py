#!/usr/bin/env python3
"""Generates /verif/MANIFEST.json from the table below (one place to keep it consistent)."""
import json, os, sys
VERIF = os.path.dirname(os.path.dirname(os.path.abspath(__file__)))
sys.path.insert(0, os.path.join(VERIF, "tools"))
from claims import CLAIMS, NOT_APPLICABLE, HOOK_COMMITS

props = [json.loads(l) for l in open(os.path.join(VERIF, "properties.jsonl"))]
ids = [p["id"] for p in props]
checks = []
for pid in ids:
    c = CLAIMS.get(pid)
    if not c:
        continue
    checks.append({
        "property_id": pid,
        "quick_cmd": f"./check {pid} quick",
        "thorough_cmd": f"./check {pid} thorough",
        "evidence_file": f"/verif/evidence/{pid}.json",
        "replay_cmd_template": f"./check {pid} --replay {{path}}",
        "engine": c["engine"],
        "level_claimed": {"category": c.get("category", "exploration"), "text": c["text"], "design_ref": c.get("design_ref", f"DESIGN.md §5 {pid}")},
        "level_note": c["note"],
        "technique": c["technique"],
    })
na = []
for pid in ids:
    if pid in CLAIMS:
        continue
    na.append({"property_id": pid, "reason": NOT_APPLICABLE.get(pid, "check not built yet (work in progress in this session); no claim is made")})
m = {
    "version": 1,
    "setup_cmd": "./check setup",
    "hooks": {
        "guard": "cargo feature `verif-hooks` of open-coroutine-core",
        "enable": "the harness crates depend on open-coroutine-core with features [\"syscall\", \"verif-hooks\"] (path dependency on /repo/core); nothing else turns it on",
        "baseline_off_cmd": "cd /repo && if [ -f /w/lib/nextest.toml ]; then cargo nextest run --workspace --no-fail-fast --tool-config-file pb:/w/lib/nextest.toml --profile pb --test-threads 8 --offline; else cargo test --workspace --no-fail-fast --offline; fi",
        "source_commits": HOOK_COMMITS,
        "add_only": True,
    },
    "engines": [
        {"name": "vcore", "path": "harness/vcore", "serves_properties": sorted(p for p, c in CLAIMS.items() if c["engine"].startswith("vcore")), "kind_free_text": "proptest engines linking open-coroutine-core (in-process and child-process executors)"},
        {"name": "vsock", "path": "harness/vcore (bin vsock)", "serves_properties": sorted(p for p, c in CLAIMS.items() if c["engine"].startswith("vsock")), "kind_free_text": "scripted-kernel engines for the hooked socket calls (binary with a poisoning global allocator)"},
        {"name": "vpreempt", "path": "harness/vcore built with --features preemptive (target-preempt)", "serves_properties": sorted(p for p, c in CLAIMS.items() if c["engine"].startswith("vpreempt")), "kind_free_text": "the vcore engines built against open-coroutine-core with the preemptive feature"},
        {"name": "vuring", "path": "harness/vcore built with --features io_uring (target-uring)", "serves_properties": sorted(p for p, c in CLAIMS.items() if c["engine"].startswith("vuring")), "kind_free_text": "the vcore engines built against open-coroutine-core with the io_uring feature"},
        {"name": "vapi", "path": "harness/vapi", "serves_properties": sorted(p for p, c in CLAIMS.items() if "vapi" in c["engine"]), "kind_free_text": "proptest engine linking /repo/open-coroutine and, through its build script, the hook cdylib: histories through task!/join/try_cancel and the interposed libc symbols, fresh process per case; contributes a sub-run to each property it serves (merged into the property's evidence file by ./check)"},
        {"name": "vqshim", "path": "harness/vqshim", "serves_properties": sorted(p for p, c in CLAIMS.items() if c["engine"].startswith("vqshim")), "kind_free_text": "queue sources from /repo compiled against shim Injector/Worker/atomics under a harness-owned scheduler"},
    ],
    "checks": checks,
    "not_applicable": na,
    "notes": "All checks are property-based tests / fuzzing (proptest generators with shrinking; libFuzzer where stated). Exit 2 = could not decide. See DESIGN.md.",
}
json.dump(m, open(os.path.join(VERIF, "MANIFEST.json"), "w"), indent=1)
print("claimed:", [c["property_id"] for c in checks])
print("not claimed:", [n["property_id"] for n in na])

#!/usr/bin/env python3
import re, sys
def reg(name, unit="vcore"):
    p='/verif/harness/vcore/src/engines/mod.rs'
    s=open(p).read()
    if f'pub mod {name};' not in s:
        mods=sorted(set(re.findall(r'pub mod (\w+);',s))|{name})
        open(p,'w').write(''.join(f'pub mod {m};\n' for m in mods))
    P=name.upper()
    p='/verif/harness/vcore/src/bin/vcore.rs'
    s=open(p).read()
    if f'"{P}" =>' not in s:
        s=s.replace('        other => {',f'        "{P}" => engines::{name}::main(&args),\n        other => {{',1)
        open(p,'w').write(s)
    p='/verif/check'
    s=open(p).read()
    if f'"{P}":' not in s:
        s=s.replace('CHECKS = {\n',f'CHECKS = {{\n    "{P}": [("{unit}", "{P}")],\n',1)
        open(p,'w').write(s)
for n in sys.argv[1:]:
    reg(n)
